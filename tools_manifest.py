"""Regenerates MANIFEST.json from the per-property table below (keeps it valid and consistent)."""
import json
import os

ROOT = os.path.dirname(os.path.abspath(__file__))
RUN = "cd /verif && PYTHONPATH=/verif /venv/bin/python -m vt.run %s --tier %s"

CHECKS = {
    "C01": ("reference-interpreter oracle over representative groups vs. detector reports (runtime monitoring of run_detectors)",
            "exploration of generated fragment programs: for each (program, detector) the oracle searches an accepting execution carrying the dangerous value; the monitor fires if the detector reported nothing. Held only on the programs and inputs generated.",
            "trusts vt/ref/avm.py (interpreter of the fragment) and the representative-value enumeration; unread fields are wildcards", "5/C01"),
    "C04": ("structural invariant monitor on parse_teal()/Function graphs + concrete pc traces replayed as walks",
            "exploration: static invariants against an independent successor relation on every generated layout, and interpreter traces checked step by step with an explicit call stack",
            "trusts vt/ref/cfg.py (successor relation from the AVM spec) and vt/ref/avm.py", "5/C04"),
    "C05": ("reference call-structure comparison incl. call-graph.dot read back (edges, nodes, outer shape of a digraph)",
            "exploration over layouts with 0-6 disjoint subroutines (nested, shared, recursive, dead call sites)",
            "trusts vt/ref/cfg.py; programs whose subroutine bodies overlap are skipped (property excludes them)", "5/C05"),
    "C06": ("concrete-execution soundness monitor on group_sizes/group_indices + abstract-walk exactness oracle (exact_valid <= reported <= exact_ci)",
            "exploration: every accepting execution over all 136 (size, index) pairs must be admitted by every visited block",
            "trusts vt/ref/avm.py; line-based mapping of executed instructions to blocks", "5/C06"),
    "C07": ("concrete-execution soundness monitor on transaction_types",
            "exploration over all kind valuations of programs checking TypeEnum/OnCompletion/ApplicationID",
            "trusts vt/ref/avm.py and the protocol defaults for non-application transactions", "5/C07"),
    "C08": ("concrete-execution soundness monitor on address-field information",
            "exploration over address valuations {zero, literals, creator, attacker}",
            "trusts vt/ref/avm.py; addresses are atoms with equality only", "5/C08"),
    "C09": ("concrete-execution soundness monitor on max_fee + walk oracle for clause 2 + table of single direct checks (operator x operand order x negation x consumer x boundary constants) for the exact bound",
            "exploration over fee representatives around every constant; the single-check table is sampled (400 of ~1 600 combinations per run)",
            "trusts vt/ref/avm.py", "5/C09"),
    "C02": ("push-down replay of every reported path against the reference graph + independent restatement of the nine exclusion predicates + rendering comparison",
            "exploration over generated programs (incl. recursion, shared subroutines) and the repository's .teal corpus",
            "trusts vt/ref/cfg.py; exclusion predicates restated in vt/checks/c02.py; corpus steps use tealer's own next lists", "5/C02"),
    "C11": ("tagged-stack reference machine (cell histories) vs. construct_stack_ast",
            "exhaustive over the opcode table for declared stack effects, exploration over straight-line sequences for operand attribution",
            "trusts the stack-effect columns and identity maps of vt/spec/avm_table.py", "5/C11"),
    "C16": ("generator ground truth + independent reference line grammar / literal decoders vs. parse_line and str()",
            "opcode x field pass exhaustive; immediates, spellings and decoration sampled",
            "trusts vt/spec/avm_table.py and the decoders in vt/checks/c16.py", "5/C16"),
    "C19": ("spec-table oracle over stderr diagnostics, Teal.mode/contract_type and block cost annotations",
            "opcode/field x declared-version table exhaustive; mode mixtures and cost blocks sampled",
            "trusts vt/spec/avm_table.py (cross-checked against pyteal); field-level modes are not judged", "5/C19"),
    "C17": ("exit-status / exception monitor around tealer.__main__.main() (in-process) and `python -m tealer` (subprocess sample)",
            "exploration over fragment programs and adversarial layouts x 9 CLI modes",
            "programs outside the property's domain (subroutine body reachable without callsub) are skipped using vt/ref/cfg.py", "5/C17"),
    "C18": ("read-back of every exported DOT / JSON artefact (shape of a digraph, nodes, edges, colours, annotations) compared with the reference global graph and the in-process API results",
            "exploration over fragment programs x printers / output formats / filter patterns",
            "trusts the DOT reader in vt/checks/c18.py and vt/ref/cfg.py", "5/C18"),
    "C20": ("independent reachability + straight-line matcher on the reference instruction graph vs. match_regex",
            "exploration over fragment programs x labels x generated patterns",
            "instruction-level control flow taken as the intra-procedural relation (callsub continues at the next instruction)", "5/C20"),
    "C12": ("structural monitor on construct_function results + context soundness restricted to executions starting with the dispatch path + build-order independence + deep dump of the contract graph",
            "exploration over fragment programs x dispatch-path prefixes (bounded) x build orders",
            "trusts vt/ref/avm.py; main-level block sequence of an execution computed from its pc trace", "5/C12"),
    "C14": ("canonical-dump equality across fresh processes (PYTHONHASHSEED sweep), callee-enumeration orders, in-process histories and detector permutations/repetitions",
            "exploration of the perturbation space that set iteration really controls",
            "dump = vt/mon/dump.py (contexts as sets, paths and JSON text literally); callee order perturbed by a harness wrapper", "5/C14"),
    "C15": ("metamorphic monitor: original vs. rewritten source through the rewriter's instruction map",
            "exploration over fragment programs x compositions of the listed rewrites",
            "rewriters of vt/gen/rewrite.py, cross-checked per case with the reference interpreter", "5/C15"),
    "C10": ("concrete multi-member-group soundness monitor on gtxn_context / absolute_context / relative_context + attribution table (each named read form constrains exactly the targeted context; unrecognised index arithmetic constrains no offset context)",
            "exploration over programs reading other members by absolute index and by offset x groups with independent per-member valuations",
            "trusts vt/ref/avm.py; 'impossible index' taken from the block's own group_indices", "5/C10"),
    "C13": ("concrete group-semantics oracle over generated YAML configurations vs. GroupTransactionOutput; cleared-by-the-statement oracle (guarded configurations and member-targeted abstract walks); listing-order invariance; degenerate configurations vs. single-contract verdicts; a rejected satisfiable configuration or a raising detector is a violation",
            "exploration over configurations of 1-3 transactions (absolute indices, offsets of both signs, types) x concrete groups",
            "trusts vt/ref/avm.py and vt/ref/walks.py; generated contracts avoid the constructs of the known findings except the fee domain (attributed by the single-upper-bound oracle); configurations no group can satisfy are not judged", "5/C13"),
    "C03": ("abstract walk oracle (direct checks exact, all other conditions free, matched returns) vs. detector reports",
            "exploration over direct-check programs x nine detectors; confusion matrix oracle x tealer in the evidence",
            "trusts vt/ref/walks.py (symbolic per-block condition reconstruction, explicit-state search over (pc, call stack)); Fee judged on representatives", "5/C03"),
}


def main():
    props = [json.loads(l) for l in open(os.path.join(ROOT, "properties.jsonl"))]
    checks = []
    na = []
    for p in props:
        pid = p["id"]
        if pid not in CHECKS:
            na.append({"property_id": pid, "reason": "check not built yet in this round (planned, see DESIGN.md section 5/%s)" % pid})
            continue
        tech, text, note, ref = CHECKS[pid]
        checks.append({
            "property_id": pid,
            "quick_cmd": RUN % (pid, "quick"),
            "thorough_cmd": RUN % (pid, "thorough"),
            "evidence_file": "/verif/evidence/%s.json" % pid,
            "replay_cmd_template": "cd /verif && PYTHONPATH=/verif /venv/bin/python -m vt.run %s --replay {path}" % pid,
            "engine": "vt",
            "level_claimed": {"category": "exploration", "text": text, "design_ref": "DESIGN.md section " + ref},
            "level_note": note,
            "technique": "runtime monitoring: " + tech,
        })
    m = {
        "version": 1,
        "setup_cmd": "cd /verif && PYTHONPATH=/verif /venv/bin/python -m vt.setup",
        "hooks": {
            "guard": "TEALER_VERIF",
            "enable": "no in-tree hooks: every monitor is attached from the harness (vt/mon); checks export TEALER_VERIF=1 for their workers",
            "baseline_off_cmd": "cd /repo && /venv/bin/python -m pytest -ra -q -p no:cacheprovider --timeout=900 --continue-on-collection-errors",
            "source_commits": [],
            "add_only": True,
        },
        "engines": [{"name": "vt", "path": "/verif/vt", "serves_properties": sorted(CHECKS),
                     "kind_free_text": "runtime monitoring: generated workloads drive the real tealer in-process; oracles = reference AVM interpreter, reference CFG, spec table"}],
        "checks": checks,
        "not_applicable": na,
        "notes": "Known genuine defects that are not repaired are listed in /verif/known_findings.json (matched by mechanism); repairs are 'fix:' commits in /repo.",
    }
    with open(os.path.join(ROOT, "MANIFEST.json"), "w") as f:
        json.dump(m, f, indent=1)
    print("MANIFEST.json: %d checks, %d not_applicable" % (len(checks), len(na)))


if __name__ == "__main__":
    main()
