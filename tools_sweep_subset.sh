#!/bin/bash
# usage: tools_sweep_subset.sh <tier> <seed> <check...>   like tools_sweep.sh for the named checks only
tier=$1; seed=$2; shift; shift
cd "$(dirname "$0")"
for p in "$@"; do
  out=$(VERIF_SEED=$seed PYTHONPATH=$PWD /venv/bin/python -m vt.run $p --tier $tier 2>&1)
  rc=$?
  echo "seed=$seed $p rc=$rc :: $(echo "$out" | tail -1)"
  if [ $rc -ne 0 ]; then echo "$out" | grep -v '^KNOWN' | tail -6 | sed 's/^/      /'; fi
done
