"""Systematic mutation campaign against the checks (validation of the monitors, DESIGN.md section 14.4).

For every sampled mutation site in the given tealer source files a scratch worktree of /repo (outside /repo and
/verif) gets the mutated file, the checks mapped to that file are run with VT_REPO pointing at it, and the verdict is
appended to a JSONL log.  Mutants no check notices are then (optionally, --tests) run through the repository's own
test suite: the interesting residue is "passes the tests, noticed by no check".  /repo itself is never modified.

usage: tools_mutate.py --out DIR [--per-file N] [--seed S] [--scale X] [--tests] file[:C01,C02..] ...
"""
import ast
import copy
import difflib
import json
import os
import random
import subprocess
import sys
import tempfile
import time

ROOT = os.path.dirname(os.path.abspath(__file__))

DEFAULT_MAP = {
    "tealer/analyses/dataflow/transaction_context/generic.py": ["C06", "C08", "C09", "C01", "C10"],
    "tealer/analyses/dataflow/transaction_context/int_fields.py": ["C06", "C01"],
    "tealer/analyses/dataflow/transaction_context/txn_types.py": ["C07", "C03"],
    "tealer/analyses/dataflow/transaction_context/addr_fields.py": ["C08", "C03"],
    "tealer/analyses/dataflow/transaction_context/fee_field.py": ["C09", "C03"],
    "tealer/analyses/dataflow/transaction_context/utils/key_helpers.py": ["C10", "C06", "C13"],
    "tealer/analyses/dataflow/transaction_context/utils/group_helpers.py": ["C10", "C13"],
    "tealer/detectors/utils.py": ["C01", "C02", "C03", "C13"],
    "tealer/teal/parse_teal.py": ["C04", "C05", "C19", "C17"],
    "tealer/teal/parse_functions.py": ["C12", "C04"],
    "tealer/analyses/utils/stack_ast_builder.py": ["C11", "C06"],
    "tealer/utils/regex/regex.py": ["C20"],
    "tealer/utils/output.py": ["C18", "C02"],
    "tealer/teal/subroutine.py": ["C05", "C12", "C09"],
    "tealer/teal/basic_blocks.py": ["C04", "C05", "C19"],
    "tealer/teal/functions.py": ["C12", "C05"],
    "tealer/execution_context/transactions.py": ["C13"],
    "tealer/utils/command_line/group_config.py": ["C13"],
    "tealer/teal/instructions/parse_instruction.py": ["C16", "C15"],
    "tealer/utils/analyses.py": ["C11", "C04", "C15", "C06"],
    "tealer/teal/teal.py": ["C19", "C17", "C12"],
    "tealer/utils/teal_enums.py": ["C07", "C03"],
    "tealer/detectors/groupsize.py": ["C01", "C14"],
    "tealer/teal/context/block_transaction_context.py": ["C10", "C06", "C08"],
}

CMP_SWAP = {ast.Eq: ast.NotEq, ast.NotEq: ast.Eq, ast.Lt: ast.LtE, ast.LtE: ast.Lt, ast.Gt: ast.GtE, ast.GtE: ast.Gt,
            ast.Is: ast.IsNot, ast.IsNot: ast.Is, ast.In: ast.NotIn, ast.NotIn: ast.In}
BIN_SWAP = {ast.Add: ast.Sub, ast.Sub: ast.Add, ast.BitOr: ast.BitAnd, ast.BitAnd: ast.BitOr}


def sites(tree):
    """[(path-of-node-index, kind)] - every place one of the operators applies."""
    out = []
    for idx, node in enumerate(ast.walk(tree)):
        if isinstance(node, ast.Compare) and len(node.ops) == 1 and type(node.ops[0]) in CMP_SWAP:
            out.append((idx, "cmp"))
        elif isinstance(node, ast.BoolOp):
            out.append((idx, "boolop"))
        elif isinstance(node, ast.UnaryOp) and isinstance(node.op, ast.Not):
            out.append((idx, "not"))
        elif isinstance(node, ast.BinOp) and type(node.op) in BIN_SWAP:
            out.append((idx, "binop"))
        elif isinstance(node, ast.Constant) and isinstance(node.value, int) and not isinstance(node.value, bool) and abs(node.value) < 70:
            out.append((idx, "const+1"))
            if node.value > 0:
                out.append((idx, "const-1"))
        elif isinstance(node, ast.Constant) and isinstance(node.value, bool):
            out.append((idx, "boolconst"))
        elif isinstance(node, (ast.Continue, ast.Break)):
            out.append((idx, "loopctl"))
        elif isinstance(node, ast.Call) and isinstance(node.func, ast.Name) and node.func.id in ("set", "list", "dict") and len(node.args) == 1 and not node.keywords:
            out.append((idx, "dropcopy"))
        elif isinstance(node, ast.Return) and isinstance(node.value, ast.Tuple) and len(node.value.elts) == 2:
            out.append((idx, "swapret"))
        elif isinstance(node, ast.If) and not node.orelse:
            out.append((idx, "if-true"))
        elif isinstance(node, ast.Expr) and isinstance(node.value, ast.Call):
            # a statement-level call (append / add / extend / update ...): delete it
            f = node.value.func
            if isinstance(f, ast.Attribute) and f.attr in ("append", "add", "extend", "update", "remove", "insert", "pop", "discard"):
                out.append((idx, "dropcall"))
        elif isinstance(node, ast.AugAssign):
            out.append((idx, "dropaug"))
        elif isinstance(node, ast.Subscript) and isinstance(node.slice, ast.UnaryOp) and isinstance(node.slice.op, ast.USub):
            out.append((idx, "negindex"))
    return out


def mutate(src, idx, kind):
    tree = ast.parse(src)
    for i, node in enumerate(ast.walk(tree)):
        if i != idx:
            continue
        if kind == "cmp":
            node.ops = [CMP_SWAP[type(node.ops[0])]()]
        elif kind == "boolop":
            node.op = ast.Or() if isinstance(node.op, ast.And) else ast.And()
        elif kind == "not":
            arg = node.operand
            node.__class__ = arg.__class__
            node.__dict__.clear()
            node.__dict__.update(arg.__dict__)
        elif kind == "binop":
            node.op = BIN_SWAP[type(node.op)]()
        elif kind == "const+1":
            node.value = node.value + 1
        elif kind == "const-1":
            node.value = node.value - 1
        elif kind == "boolconst":
            node.value = not node.value
        elif kind == "loopctl":
            node.__class__ = ast.Break if isinstance(node, ast.Continue) else ast.Continue
        elif kind == "dropcopy":
            arg = node.args[0]
            node.__class__ = arg.__class__
            node.__dict__.clear()
            node.__dict__.update(arg.__dict__)
        elif kind == "swapret":
            node.value.elts = [node.value.elts[1], node.value.elts[0]]
        elif kind == "if-true":
            node.test = ast.Constant(value=True)
        elif kind in ("dropcall", "dropaug"):
            node.__class__ = ast.Pass
            node.__dict__.clear()
        elif kind == "negindex":
            node.slice = node.slice.operand
        break
    ast.fix_missing_locations(tree)
    return ast.unparse(tree) + "\n"


class _Hung:
    returncode = 124
    stdout = ""
    stderr = "timeout"


def run(cmd, **kw):
    """Every check / test run is bounded: a mutant that makes tealer loop is recorded as rc=124 ("hang")."""
    import signal
    kw.setdefault("timeout", 700)
    t = kw.pop("timeout")
    p = subprocess.Popen(cmd, stdout=subprocess.PIPE, stderr=subprocess.PIPE, text=True, start_new_session=True, **kw)
    try:
        o, e = p.communicate(timeout=t)
    except subprocess.TimeoutExpired:
        os.killpg(p.pid, signal.SIGKILL)
        p.communicate()
        return _Hung()
    r = _Hung()
    r = type("R", (), {"returncode": p.returncode, "stdout": o, "stderr": e})()
    return r


def main():
    a = sys.argv[1:]
    out = a[a.index("--out") + 1]
    per = int(a[a.index("--per-file") + 1]) if "--per-file" in a else 8
    seed = int(a[a.index("--seed") + 1]) if "--seed" in a else 0
    scale = a[a.index("--scale") + 1] if "--scale" in a else "0.3"
    tests = "--tests" in a
    skip = set()
    for f in ("--out", "--per-file", "--seed", "--scale"):
        if f in a:
            skip.add(a.index(f))
            skip.add(a.index(f) + 1)
    files = [x for i, x in enumerate(a) if i not in skip and not x.startswith("--")] or list(DEFAULT_MAP)
    os.makedirs(out, exist_ok=True)
    log = open(os.path.join(out, "results.jsonl"), "a")
    wt = tempfile.mkdtemp(prefix="vt_mut_")
    os.rmdir(wt)
    subprocess.run(["git", "-C", "/repo", "worktree", "add", "-q", "--detach", wt, "HEAD"], check=True)
    rng = random.Random(seed)
    try:
        for spec in files:
            path, _, chk = spec.partition(":")
            checks = chk.split(",") if chk else DEFAULT_MAP.get(path, ["C17"])
            src = open(os.path.join("/repo", path)).read()
            base = ast.unparse(ast.parse(src)) + "\n"
            ss = sites(ast.parse(src))
            rng.shuffle(ss)
            done = 0
            for idx, kind in ss:
                if done >= per:
                    break
                try:
                    mut = mutate(src, idx, kind)
                    compile(mut, path, "exec")
                except Exception:
                    continue
                if mut == base:
                    continue
                diff = "".join(difflib.unified_diff(base.splitlines(True), mut.splitlines(True), "a/" + path, "b/" + path, n=2))
                subprocess.run(["git", "-C", wt, "checkout", "-q", "--", "."], check=True)
                open(os.path.join(wt, path), "w").write(mut)
                # smoke: must import and analyse a tiny contract, otherwise the mutant is not "still working"
                sm = run(["/venv/bin/python", "-c",
                          "import logging; logging.disable(logging.CRITICAL)\n"
                          "from tealer.utils.command_line.common import init_tealer_from_single_contract as f\n"
                          "t=f('#pragma version 6\\ntxn Fee\\nint 1000\\n<=\\nassert\\ncallsub s\\nint 1\\nreturn\\ns:\\ntxn RekeyTo\\nglobal ZeroAddress\\n==\\nassert\\nretsub\\n','c')\n"
                          "from tealer.utils.command_line.common import get_detectors_and_printers as g\n"
                          "[t.register_detector(d) for d in g()[0]]; t.run_detectors()"],
                         env=dict(os.environ, PYTHONPATH=wt, TEALER_ROOT_OUTPUT_DIR=tempfile.gettempdir()), timeout=120)
                if sm.returncode != 0:
                    continue
                done += 1
                rec = {"file": path, "site": idx, "kind": kind, "diff": diff, "checks": {}, "t": time.time()}
                detected = False
                for c in checks:
                    env = dict(os.environ, VT_REPO=wt, VT_SCALE=scale, PYTHONPATH=ROOT, VT_PROBES="0")
                    p = run(["/venv/bin/python", "-m", "vt.run", c, "--tier", "quick"], cwd=ROOT, env=env)
                    nv = sum(1 for l in p.stdout.splitlines() if l.startswith("VIOLATION"))
                    rec["checks"][c] = {"rc": p.returncode, "unlisted": nv}
                    if p.returncode == 1 and nv:
                        detected = True
                        break
                    if p.returncode == 124:
                        rec["hang"] = True
                        break
                if not detected and "C17" not in rec["checks"] and any(v["rc"] == 2 for v in rec["checks"].values()):
                    # the checks were inconclusive because tealer raised: that is C17's subject
                    env = dict(os.environ, VT_REPO=wt, VT_SCALE=scale, PYTHONPATH=ROOT, VT_PROBES="0")
                    p = run(["/venv/bin/python", "-m", "vt.run", "C17", "--tier", "quick"], cwd=ROOT, env=env)
                    nv = sum(1 for l in p.stdout.splitlines() if l.startswith("VIOLATION"))
                    rec["checks"]["C17"] = {"rc": p.returncode, "unlisted": nv}
                    detected = p.returncode == 1 and nv > 0
                rec["detected"] = detected
                if not detected and tests:
                    t = run(["/venv/bin/python", "-m", "pytest", "-q", "-p", "no:cacheprovider", "--timeout=900", "-n", "12", "-x"],
                            cwd=wt, env=dict(os.environ, PYTHONPATH=wt))
                    rec["tests"] = t.stdout.strip().splitlines()[-1] if t.stdout.strip() else "?"
                log.write(json.dumps(rec) + "\n")
                log.flush()
                print("%-70s #%d %-9s %s %s" % (path[-70:], idx, kind, "DETECTED" if detected else "missed  ",
                                                 rec.get("tests", "") + (" HANG" if rec.get("hang") else "")), flush=True)
    finally:
        subprocess.run(["git", "-C", "/repo", "worktree", "remove", "--force", wt])
    return 0


if __name__ == "__main__":
    sys.exit(main())
