#!/bin/bash
# usage: tools_sweep.sh <tier> <seeds...>   runs every check registered in MANIFEST.json; prints one line per run
tier=$1; shift
cd "$(dirname "$0")"
for seed in "$@"; do
  for p in $(python3 -c "import json;print(' '.join(c['property_id'] for c in json.load(open('MANIFEST.json'))['checks']))"); do
    out=$(VERIF_SEED=$seed PYTHONPATH=$PWD /venv/bin/python -m vt.run $p --tier $tier 2>&1)
    rc=$?
    echo "seed=$seed $p rc=$rc :: $(echo "$out" | tail -1)"
    if [ $rc -ne 0 ]; then echo "$out" | grep -v '^KNOWN' | tail -6 | sed 's/^/      /'; fi
  done
done
