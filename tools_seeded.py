"""Re-run, for every confirmed seeded change, the checks that are recorded as detecting it.

For each /verif/seeded/<id>/: a scratch git worktree of /repo is created outside /repo and /verif, the patch is
applied there, the checks named in meta.json["detected_by"] are run with VT_REPO pointing at it, and the
worktree is removed.  /repo itself is never modified.   usage: tools_seeded.py [--mutants] [id ...] [--scale 0.6]   (--mutants: /verif/mutants/*.diff instead)
"""
import json
import os
import subprocess
import sys
import tempfile

ROOT = os.path.dirname(os.path.abspath(__file__))


def main():
    args = [a for a in sys.argv[1:] if not a.startswith("--")]
    scale = "0.6"
    if "--scale" in sys.argv:
        scale = sys.argv[sys.argv.index("--scale") + 1]
        args = [a for a in args if a != scale]
    mutants = "--mutants" in sys.argv
    if mutants:
        table = json.load(open(os.path.join(ROOT, "mutants", "mutants.json")))
        ids = args or sorted(k for k in table if not k.startswith("_"))
    else:
        ids = args or sorted(os.listdir(os.path.join(ROOT, "seeded")))
    bad = 0
    for sid in ids:
        if mutants:
            patch = os.path.join(ROOT, "mutants", sid + ".diff")
            meta = {"detected_by": {c: "" for c in table[sid]["checks"]}}
        else:
            d = os.path.join(ROOT, "seeded", sid)
            patch = os.path.join(d, "patch.diff")
            meta = json.load(open(os.path.join(d, "meta.json")))
        wt = tempfile.mkdtemp(prefix="vt_seed_")
        os.rmdir(wt)
        subprocess.run(["git", "-C", "/repo", "worktree", "add", "-q", "--detach", wt, "HEAD"], check=True)
        try:
            r = subprocess.run(["git", "-C", wt, "apply", patch], capture_output=True, text=True)
            if r.returncode != 0:
                print("%s: patch does not apply: %s" % (sid, r.stderr.strip()[:200]))
                bad += 1
                continue
            for chk in meta.get("detected_by", {}):
                env = dict(os.environ, VT_REPO=wt, VT_SCALE=scale, PYTHONPATH=ROOT, VT_PROBES="0")
                p = subprocess.run(["/venv/bin/python", "-m", "vt.run", chk, "--tier", "quick"], cwd=ROOT, env=env,
                                   capture_output=True, text=True)
                nv = sum(1 for l in p.stdout.splitlines() if l.startswith("VIOLATION"))
                ok = p.returncode == 1 and nv > 0
                print("%-52s %s rc=%d unlisted=%d %s" % (sid, chk, p.returncode, nv, "DETECTED" if ok else "** MISSED **"))
                if not ok:
                    bad += 1
        finally:
            subprocess.run(["git", "-C", "/repo", "worktree", "remove", "--force", wt])
    print("done; %d problems (evidence and replay files of these runs go to a temp directory, not to /verif/evidence)" % bad)
    return 1 if bad else 0


if __name__ == "__main__":
    sys.exit(main())
