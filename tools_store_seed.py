"""Store a confirmed seeded change under /verif/seeded/<id>/ (patch.diff, demo.py, meta.json).
usage: tools_store_seed.py <seed-id> <worktree> <property> <json-with: needs, origin, tests, detected_by{check: summary}, missed_by[]>"""
import json
import os
import shutil
import subprocess
import sys

sid, wt, prop, meta = sys.argv[1], sys.argv[2], sys.argv[3], json.loads(sys.argv[4])
d = os.path.join(os.path.dirname(os.path.abspath(__file__)), "seeded", sid)
os.makedirs(d, exist_ok=True)
diff = subprocess.run(["git", "-C", wt, "diff", "--", "tealer"], capture_output=True, text=True).stdout
open(os.path.join(d, "patch.diff"), "w").write(diff)
if os.path.exists(os.path.join(wt, "demo.py")):
    shutil.copy(os.path.join(wt, "demo.py"), os.path.join(d, "demo.py"))
meta = dict(meta)
meta["breaks_property"] = prop
meta["apply"] = "git -C /repo apply /verif/seeded/%s/patch.diff ; run checks ; git -C /repo checkout -- ." % sid
meta["demo"] = "PYTHONPATH=<tree> /venv/bin/python demo.py  (exit 1 with the change, exit 0 without)"
json.dump(meta, open(os.path.join(d, "meta.json"), "w"), indent=1)
print("stored", d, len(diff.splitlines()), "diff lines")
