"""Meaning-preserving rewrites of instruction-tuple programs, with the instruction map old -> new.

Each rewrite returns (new_prog, mapping) where mapping[i] = index in new_prog of old instruction i.
`render_decorated` renders with comments / blank lines / indentation and returns the line of each instruction.
"""
from vt.gen.teal import render_ins, TYPE_ENUM, ON_COMPLETION, int_value

INT_PUSH = ("int", "pushint")


def identity(prog):
    return list(range(len(prog)))


def compose(m1, m2):
    return [m2[j] for j in m1]


def rename_labels(prog, rng):
    style = rng.choice(["pre", "suf", "num"])
    names = {}
    for ins in prog:
        if ins[0] == "label":
            n = ins[1]
            names[n] = {"pre": "zz_" + n, "suf": n + "_x", "num": "q%d" % len(names)}[style]
    out = []
    for ins in prog:
        op = ins[0]
        if op in ("label", "b", "bz", "bnz", "callsub"):
            out.append((op, names[ins[1]]))
        elif op in ("switch", "match"):
            out.append(tuple([op] + [names[l] for l in ins[1:]]))
        else:
            out.append(ins)
    return out, identity(prog)


def radix(prog, rng):
    out = []
    for ins in prog:
        if ins[0] in INT_PUSH and isinstance(ins[1], int) and rng.random() < 0.6:
            v = ins[1]
            t = rng.choice([hex(v), "0" + oct(v)[2:] if v else "0", str(v)])
            out.append((ins[0], RawInt(t, v)))
        else:
            out.append(ins)
    return out, identity(prog)


class RawInt(int):
    """An int that renders with a given spelling."""

    def __new__(cls, text, value):
        o = int.__new__(cls, value)
        o.text = text
        return o

    def __str__(self):
        return self.text

    __repr__ = __str__


def named_constants(prog, rng):
    """word <-> number for a constant that is the comparand of TypeEnum / OnCompletion:
    `<read F>; C; ==|!=`  or  `C; txn F | gtxn i F; ==|!=`  (never a constant used as a group index)."""
    out = list(prog)
    inv_t = {v: k for k, v in TYPE_ENUM.items()}
    inv_o = {v: k for k, v in ON_COMPLETION.items()}

    def read_field(i, allow_gtxns):
        if i[0] == "txn":
            return i[1]
        if i[0] == "gtxn":
            return i[2]
        if i[0] == "gtxns" and allow_gtxns:
            return i[1]
        return None

    n = len(prog)
    for k, ins in enumerate(prog):
        if ins[0] not in INT_PUSH:
            continue
        f = None
        if k >= 1 and k + 1 < n and prog[k + 1][0] in ("==", "!="):
            f = read_field(prog[k - 1], True)           # read; C; cmp
        if f is None and k + 2 < n and prog[k + 2][0] in ("==", "!="):
            f = read_field(prog[k + 1], False)          # C; read; cmp
        if f not in ("TypeEnum", "OnCompletion") or rng.random() < 0.3:
            continue
        v = ins[1]
        if isinstance(v, str):
            out[k] = (ins[0], int_value(v))
        else:
            table = inv_t if f == "TypeEnum" else inv_o
            if int(v) in table and (f == "OnCompletion" or int(v) != 0):
                out[k] = (ins[0], table[int(v)])
    return out, identity(prog)


def int_spelling(prog, rng):
    """int <-> pushint; and, when the program has no intcblock, an entry intcblock with intc / intc_k."""
    has_block = any(i[0] == "intcblock" for i in prog)
    out = []
    for ins in prog:
        if ins[0] in INT_PUSH and rng.random() < 0.5:
            out.append(("pushint" if ins[0] == "int" else "int", ins[1]))
        else:
            out.append(ins)
    mapping = identity(prog)
    if not has_block and rng.random() < 0.6:
        vals = []
        for ins in out:
            if ins[0] in INT_PUSH and isinstance(ins[1], int) and int(ins[1]) not in vals and len(vals) < 6:
                vals.append(int(ins[1]))
        if vals:
            new = []
            for ins in out:
                if ins[0] in INT_PUSH and isinstance(ins[1], int) and int(ins[1]) in vals and rng.random() < 0.7:
                    i = vals.index(int(ins[1]))
                    new.append(("intc_%d" % i,) if i < 4 and rng.random() < 0.5 else ("intc", i))
                else:
                    new.append(ins)
            out = [tuple(["intcblock"] + vals)] + new
            mapping = [i + 1 for i in mapping]
    return out, mapping


def padding(prog, rng):
    out, mapping = [], []
    for i, ins in enumerate(prog):
        mapping.append(len(out))
        out.append(ins)
        if ins[0] in ("assert", "label", "pop", "store") and rng.random() < 0.3:
            out.extend(rng.choice([[("int", 7), ("pop",)], [("int", 1), ("int", 2), ("+",), ("pop",)], [("txn", "Note"), ("pop",)]]))
    return out, mapping


def move_subroutines(prog, rng):
    """Permute whole subroutine bodies that form a contiguous tail `sub_a: ... sub_b: ... [FIN: ...]`."""
    from vt.ref.cfg import RefCFG
    ref = RefCFG(list(prog))
    entries = sorted(ref.sub_entry.values())
    if len(entries) < 2:
        return list(prog), identity(prog)
    first = entries[0]
    # the tail must consist of the subroutine bodies only, optionally followed by a final label block
    ends = entries[1:] + [len(prog)]
    fin = None
    for k in range(entries[-1] + 1, len(prog)):
        if prog[k][0] == "label" and prog[k][1].startswith("FIN"):
            fin = k
            ends[-1] = k
            break
    ranges = list(zip(entries, ends))
    for (a, b) in ranges:
        if prog[b - 1][0] not in ("retsub", "return", "err", "b"):
            return list(prog), identity(prog)
        body = set(range(a, b))
        name = prog[a][1]
        if not ref.sub_members[name] <= body:
            return list(prog), identity(prog)
    if first == 0 or prog[first - 1][0] not in ("return", "err", "b", "retsub"):
        return list(prog), identity(prog)
    order = list(range(len(ranges)))
    rng.shuffle(order)
    out = list(prog[:first])
    mapping = list(range(first)) + [None] * (len(prog) - first)
    for j in order:
        a, b = ranges[j]
        for k in range(a, b):
            mapping[k] = len(out)
            out.append(prog[k])
    if fin is not None:
        for k in range(fin, len(prog)):
            mapping[k] = len(out)
            out.append(prog[k])
    if any(m is None for m in mapping):
        return list(prog), identity(prog)
    return out, mapping


REWRITES = {
    "rename_labels": rename_labels,
    "radix": radix,
    "named_constants": named_constants,
    "int_spelling": int_spelling,
    "padding": padding,
    "move_subroutines": move_subroutines,
}


def render_decorated(prog, version, rng):
    """Render with comments, blank lines and indentation. Returns (text, line_of)."""
    lines = []
    if rng.random() < 0.3:
        lines.append("// leading comment")  # before the pragma? no: the pragma must stay the first instruction
        lines.pop()
    lines.append("#pragma version %d" % version + rng.choice(["", " // v", "  "]))
    line_of = []
    for ins in prog:
        w = rng.random()
        if w < 0.15:
            lines.append("")
        elif w < 0.3:
            lines.append(rng.choice(["// a comment", "    // indented comment", "\t//"]))
        indent = rng.choice(["", "", "    ", "\t", "  "])
        tail = rng.choice(["", "", " // trailing", "\t// x"])
        lines.append(indent + render_ins(ins) + tail)
        line_of.append(len(lines))
    return "\n".join(lines) + "\n", line_of
