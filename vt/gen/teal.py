"""Instruction-tuple representation of TEAL programs and their rendering.

A program is a list of tuples `(op, *immediates)`; labels are `("label", name)`.
The rendered text puts `#pragma version V` on line 1 and instruction k (0-based)
on line k+2, unless a decoration map says otherwise (used by the rewriters).
The reference interpreter and the reference CFG both work on these tuples, never
on the generator's structured AST.
"""

# Valid Algorand addresses (32 bytes of 0x01.., with checksum), computed once with algosdk.
ADDRS = {
    "A1": "AEAQCAIBAEAQCAIBAEAQCAIBAEAQCAIBAEAQCAIBAEAQCAIBAEA5RCDXMI",
    "A2": "AIBAEAQCAIBAEAQCAIBAEAQCAIBAEAQCAIBAEAQCAIBAEAQCAIBMXPWWNQ",
    "A3": "AMBQGAYDAMBQGAYDAMBQGAYDAMBQGAYDAMBQGAYDAMBQGAYDAMB5DBBASI",
    "A4": "AQCAIBAEAQCAIBAEAQCAIBAEAQCAIBAEAQCAIBAEAQCAIBAEAQCABXO5EU",
    "A5": "AUCQKBIFAUCQKBIFAUCQKBIFAUCQKBIFAUCQKBIFAUCQKBIFAUC7CN5SGQ",
}
# the address of 32 zero bytes
REAL_ZERO_ADDR = "AAAAAAAAAAAAAAAAAAAAAAAAAAAAAAAAAAAAAAAAAAAAAAAAAAAAY5HFKQ"
# a valid, NON-zero address (bytes ...02540be400) that tealer's constants call ZERO_ADDRESS
TEALER_ZERO_CONST = "AAAAAAAAAAAAAAAAAAAAAAAAAAAAAAAAAAAAAAAAAAAAEVAL4QAJS7JHB4"
ADDR_TEXT_TO_ATOM = {v: k for k, v in ADDRS.items()}
ADDR_TEXT_TO_ATOM[REAL_ZERO_ADDR] = "ZERO"
ADDR_TEXT_TO_ATOM[TEALER_ZERO_CONST] = "FEESINK"
ATOM_TO_ADDR_TEXT = {v: k for k, v in ADDR_TEXT_TO_ATOM.items()}

TYPE_ENUM = {"unknown": 0, "pay": 1, "keyreg": 2, "acfg": 3, "axfer": 4, "afrz": 5, "appl": 6}
ON_COMPLETION = {
    "NoOp": 0,
    "OptIn": 1,
    "CloseOut": 2,
    "ClearState": 3,
    "UpdateApplication": 4,
    "DeleteApplication": 5,
}
NAMED_INTS = dict(TYPE_ENUM)
NAMED_INTS.update(ON_COMPLETION)

BRANCH_OPS = ("b", "bz", "bnz")
MULTI_BRANCH_OPS = ("switch", "match")
TERMINATORS = ("b", "err", "return", "retsub")  # no fall-through


def min_version(prog):
    """Lowest #pragma version under which every opcode of the program exists (fragment only)."""
    v = 2
    need = {
        "assert": 3, "pushint": 3, "dig": 3, "swap": 3, "select": 3, "gtxns": 3, "pushbytes": 3,
        "callsub": 4, "retsub": 4, "cover": 5, "uncover": 5, "switch": 8, "match": 8,
        "bury": 8, "popn": 8, "dupn": 8, "log": 5, "gtxnsa": 3, "gtxnas": 5, "gtxnsas": 5,
    }
    labels_seen = set()
    for ins in prog:
        op = ins[0]
        v = max(v, need.get(op, 2))
        if op == "label":
            labels_seen.add(ins[1])
        elif op in BRANCH_OPS and ins[1] in labels_seen:
            v = max(v, 4)  # backward branch
        elif op in MULTI_BRANCH_OPS and any(l in labels_seen for l in ins[1:]):
            v = max(v, 8)
        if op == "global" and ins[1] == "CreatorAddress":
            v = max(v, 3)
    return v


def render_ins(ins):
    op = ins[0]
    if op == "label":
        return f"{ins[1]}:"
    if op == "addr":
        return f"addr {ATOM_TO_ADDR_TEXT.get(ins[1], ins[1])}"
    if op == "byte":
        return f"byte {ins[1]}"
    if op in ("int", "pushint"):
        return f"{op} {ins[1]}"
    return " ".join(str(x) for x in ins)


def render(prog, version):
    """Return (text, line_of) where line_of[k] is the 1-based line of instruction k."""
    lines = [f"#pragma version {version}"]
    line_of = []
    for ins in prog:
        lines.append(render_ins(ins))
        line_of.append(len(lines))
    return "\n".join(lines) + "\n", line_of


def labels_of(prog):
    return {ins[1]: k for k, ins in enumerate(prog) if ins[0] == "label"}


def int_value(x):
    """Numeric value of an `int`/`pushint` immediate (named constants resolved)."""
    if isinstance(x, int):
        return x
    return NAMED_INTS[x]
