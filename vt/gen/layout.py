"""Generator of assembler-valid *layouts*: programs whose interest is their control structure
(dead code that branches or calls, back edges, conditional branch to the next line, branch /
call / label as the last line, back-to-back labels, duplicate switch targets, subroutines before
or after main, recursion, unreachable call sites).

Every conditional tests a different bit of `txn Fee` (switch/match use two bits of `txn Amount`),
so that concrete executions with random Fee/Amount take independent branch decisions.
Two modes:
  free      - any label may be a branch or call target (bodies may overlap)
  disjoint  - main and each subroutine are separate segments; branches stay inside their segment,
              `callsub` targets segment entry labels, no segment falls into the next
"""


class LayoutGen:
    def __init__(self, rng, mode="disjoint", max_units=18, max_subs=4):
        self.r = rng
        self.mode = mode
        self.max_units = max_units
        self.max_subs = max_subs
        self.nl = 0
        self.bit = 0

    def fresh(self, base="l"):
        self.nl += 1
        return "%s%d" % (base, self.nl)

    def nextbit(self):
        b = 1 << (self.bit % 60)
        self.bit += 1
        return b

    def unit(self, kind, labels, subs):
        r = self.r
        if kind == "plain":
            return r.choice([[("int", 7), ("pop",)], [("int", 3), ("store", 1)], [("load", 1), ("pop",)]])
        if kind == "cbr":
            return [("txn", "Fee"), ("int", self.nextbit()), ("&",), (r.choice(["bz", "bnz"]), r.choice(labels))]
        if kind == "br":
            return [("b", r.choice(labels))]
        if kind == "sw":
            k = r.randint(1, 3)
            t = [r.choice(labels) for _ in range(k)]
            return [("txn", "Amount"), ("int", 3), ("&",), tuple(["switch"] + t)]
        if kind == "mt":
            k = r.randint(1, 3)
            t = [r.choice(labels) for _ in range(k)]
            return [("int", j) for j in range(k)] + [("txn", "Amount"), ("int", 3), ("&",), tuple(["match"] + t)]
        if kind == "call":
            return [("callsub", r.choice(subs))]
        if kind == "retsub":
            return [("retsub",)]
        if kind == "ret":
            return [("int", 1), ("return",)]
        if kind == "err":
            return [("err",)]
        raise ValueError(kind)

    def segment(self, entry_label, subs, is_sub, last_segment):
        """One procedure body. Returns instruction list (starting with its entry label if any)."""
        r = self.r
        n_units = r.randint(1, self.max_units)
        n_labels = r.randint(0, max(1, n_units // 2))
        labels = [self.fresh() for _ in range(n_labels)]
        kinds = ["plain"] * 4 + ["ret", "err"]
        if labels:
            kinds += ["cbr"] * 4 + ["br"] * 2 + ["sw", "mt"]
        if subs:
            kinds += ["call"] * 3
        if is_sub:
            kinds += ["retsub"] * 3
        elif self.mode == "free":
            kinds += ["retsub"]
        units = [self.unit(r.choice(kinds), labels, subs) for _ in range(n_units)]
        # place label definitions at random unit boundaries (possibly back-to-back, possibly at the very end)
        slots = sorted(r.randint(0, n_units) for _ in labels)
        out = []
        if entry_label is not None:
            out.append(("label", entry_label))
        li = 0
        for ui in range(n_units + 1):
            while li < len(labels) and slots[li] == ui:
                out.append(("label", labels[li]))
                li += 1
            if ui < n_units:
                out.extend(units[ui])
        # the segment must not fall into the next one
        if not last_segment or self.mode == "disjoint" and False:
            if not out or out[-1][0] not in ("b", "err", "return", "retsub"):
                out.extend([("retsub",)] if is_sub else [("int", 1), ("return",)])
        return out

    def program(self):
        r = self.r
        nsubs = r.randint(0, self.max_subs)
        subs = [self.fresh("f") for _ in range(nsubs)]
        order = ["main"] + subs
        subs_first = bool(subs) and r.random() < 0.25
        segs = []
        if self.mode == "free":
            # one soup: every label is both a branch and a call target
            body = self.segment(None, None, False, True)
            labs = [i[1] for i in body if i[0] == "label"]
            if labs:
                k = r.randint(0, 3)
                for _ in range(k):
                    pos = r.randint(0, len(body))
                    body.insert(pos, ("callsub", r.choice(labs)))
            return body
        if subs_first:
            start = self.fresh("main")
            segs.append([("b", start)])
            for i, s in enumerate(subs):
                segs.append(self.segment(s, subs, True, False))
            m = self.segment(None, subs, False, True)
            segs.append([("label", start)] + m)
        else:
            m = self.segment(None, subs, False, not subs)
            segs.append(m)
            for i, s in enumerate(subs):
                segs.append(self.segment(s, subs, True, i == len(subs) - 1))
        prog = [i for s in segs for i in s]
        if not prog:
            prog = [("int", 1)]
        return prog


def generate(rng, mode="disjoint", **kw):
    return LayoutGen(rng, mode, **kw).program()
