"""Seeded generator of structured TEAL programs of the modelled fragment.

A program is generated as a small structured AST (checks, if/else in both bz and bnz
layouts, bounded loops over a scratch counter, switch/match, calls, returns, err,
stack-neutral padding; a DAG of stack-neutral subroutines, optionally recursion)
and then *emitted* as instruction tuples.  Oracles never look at the AST, only at the
emitted tuples; the AST only serves to produce assembler-valid, type-correct,
stack-balanced code with a controlled set of features (recorded in `features`).
"""
from vt.gen.teal import min_version

CMP_OPS = ["==", "!=", "<", "<=", ">", ">="]
ADDR_FIELDS = ["RekeyTo", "CloseRemainderTo", "AssetCloseTo", "Sender"]
TYPE_WORDS = ["pay", "keyreg", "acfg", "axfer", "afrz", "appl"]
OC_WORDS = ["NoOp", "OptIn", "CloseOut", "ClearState", "UpdateApplication", "DeleteApplication"]
OPAQUE_FIELDS = ["Amount", "NumAppArgs", "FirstValid"]
FEE_CONSTS = [0, 1, 999, 1000, 1001, 2000, 271999, 272000, 272001, 300000, 500000, 1000000]

DEFAULT_PROFILE = {
    "keys": ["GroupSize", "GroupIndex", "Fee", "Addr", "Type", "OC", "AppID"],
    "direct_only": False,   # no stack shuffles in conditions, no carried conditions
    "p_cf": 0.35,           # constant-on-the-left
    "max_depth": 3,
    "max_stmts": 4,
    "max_subs": 3,
    "recursion": False,
    "gtxn": 0.35,           # probability that a read goes through another access path
    "loops": True,
    "switch": True,
    "hostile_layout": True,
    "end_styles": ["ret1", "ret1", "ret1", "fall", "retcond"],
    "max_blocks_hint": 25,
    "intc": 0.2,
    "max_seq_ifs": 5,
}


class Gen:
    def __init__(self, rng, profile=None):
        self.r = rng
        self.p = dict(DEFAULT_PROFILE)
        if profile:
            self.p.update(profile)
        self.nlabel = 0
        self.nscratch = 10
        self.features = set()
        self.use_intc = self.r.random() < self.p["intc"]
        self.intc_vals = []
        self.subs = []          # names
        self.sub_bodies = {}
        self.seq_ifs = 0
        self.lit_addrs = self.r.sample(["A1", "A2", "A3", "A4", "A5"], self.r.randint(1, 3))
        # half of the programs revisit ONE address field most of the time, so that several checks meet on it
        self.focus_addr = self.r.choice(ADDR_FIELDS) if self.r.random() < self.p.get("focus_addr", 0.5) else None
        if self.r.random() < self.p.get("feesink", 0.08):
            # the valid, non-zero address (bytes ..02540be400) that tealer's constants name ZERO_ADDRESS
            self.lit_addrs.append("FEESINK")

    # ---- helpers
    def lab(self, base="L"):
        self.nlabel += 1
        return f"{base}{self.nlabel}"

    def chance(self, p):
        return self.r.random() < p

    def int_ins(self, c):
        """Spell an integer constant."""
        if isinstance(c, str):
            return [("int", c)] if self.chance(0.7) else [("pushint", c)]
        if self.use_intc and self.chance(0.5):
            if c not in self.intc_vals and len(self.intc_vals) < 8:
                self.intc_vals.append(c)
            if c in self.intc_vals:
                i = self.intc_vals.index(c)
                self.features.add("intc")
                if i < 4 and self.chance(0.6):
                    return [("intc_%d" % i,)]
                return [("intc", i)]
        return [("int", c)] if self.chance(0.75) else [("pushint", c)]

    # ---- reads
    def read(self, field, allow_other=True):
        """Instruction list reading `field` of the governed transaction (or, with small
        probability, of another group member through gtxn/gtxns)."""
        r = self.r
        if field == "GroupSize":
            return [("global", "GroupSize")], ("global",)
        if getattr(self, "force_abs", None) is not None and field != "GroupIndex":
            i = self.force_abs
            if self.chance(0.5):
                return [("gtxn", i, field)], ("abs", i)
            return self.int_ins(i) + [("gtxns", field)], ("abs", i)
        if allow_other and self.chance(self.p["gtxn"]) and field != "GroupIndex":
            style = r.choice(["gtxn", "gtxns_abs", "rel+", "rel+c", "rel-", "crel-", "opaque_idx"])
            if style == "opaque_idx" and not self.p.get("opaque_index", True):
                style = "gtxns_abs"
            if style == "opaque_idx":
                # index arithmetic that is none of the recognised forms: the member read is known only at run time
                self.features.add("gtxns_opaque_index")
                a, b = r.choice([(0, 0), (0, 1), (1, 0), (1, 1), (2, 1), (1, 2)])
                shape = r.choice(["c+c", "c-c", "c+load", "load+c", "c+field", "field+c", "size-c",
                                  "gi+field", "field+gi", "gi+load", "gi-field", "gi+c+c"])
                if shape == "c+c":
                    ix = self.int_ins(a) + self.int_ins(b) + [("+",)]
                elif shape == "c-c":
                    ix = self.int_ins(a + b) + self.int_ins(b) + [("-",)]
                elif shape == "c+load":
                    ix = self.int_ins(a) + [("load", 200 + r.randint(0, 9)), ("+",)]      # never stored: 0
                elif shape == "load+c":
                    ix = [("load", 200 + r.randint(0, 9))] + self.int_ins(a) + [("+",)]
                elif shape == "c+field":
                    ix = self.int_ins(a) + [("txn", "NumAppArgs"), ("+",)]
                elif shape == "field+c":
                    ix = [("txn", "NumAppArgs")] + self.int_ins(a) + [("+",)]
                elif shape == "gi+field":
                    ix = [("txn", "GroupIndex"), ("txn", "NumAppArgs"), ("+",)]
                elif shape == "field+gi":
                    ix = [("txn", "NumAppArgs"), ("txn", "GroupIndex"), ("+",)]
                elif shape == "gi+load":
                    ix = [("txn", "GroupIndex"), ("load", 200 + r.randint(0, 9)), ("+",)]
                elif shape == "gi-field":
                    ix = [("txn", "GroupIndex"), ("txn", "NumAppArgs"), ("-",)]
                elif shape == "gi+c+c":
                    ix = [("txn", "GroupIndex")] + self.int_ins(a) + [("+",)] + self.int_ins(1) + [("+",)]
                else:
                    ix = [("global", "GroupSize")] + self.int_ins(1 + a) + [("-",)]
                return ix + [("gtxns", field)], ("opaque",)
            if style == "gtxn":
                i = r.choice([0, 0, 1, 1, 2, 3, 15])
                self.features.add("gtxn")
                return [("gtxn", i, field)], ("abs", i)
            if style == "gtxns_abs":
                i = r.choice([0, 1, 2, 3])
                self.features.add("gtxns_abs")
                return self.int_ins(i) + [("gtxns", field)], ("abs", i)
            k = r.choice([1, 1, 2, 3])
            if style == "crel-":
                # `int n; txn GroupIndex; -`: member n - GroupIndex (subtraction does not commute)
                self.features.add("gtxns_const_minus_index")
                return self.int_ins(k) + [("txn", "GroupIndex"), ("-",), ("gtxns", field)], ("cminus", k)
            self.features.add("gtxns_rel")
            if style == "rel+":
                return [("txn", "GroupIndex")] + self.int_ins(k) + [("+",), ("gtxns", field)], ("rel", k)
            if style == "rel+c":
                return self.int_ins(k) + [("txn", "GroupIndex"), ("+",), ("gtxns", field)], ("rel", k)
            return [("txn", "GroupIndex")] + self.int_ins(k) + [("-",), ("gtxns", field)], ("rel", -k)
        return [("txn", field)], ("self",)

    # ---- conditions
    def cmp(self, key=None):
        r = self.r
        key = key or r.choice(self.p["keys"])
        order_cf = self.chance(self.p["p_cf"])
        if key == "GroupSize":
            rd, _ = self.read("GroupSize")
            op = r.choice(CMP_OPS)
            c = self.int_ins(r.choice([1, 2, 2, 3, 4, 8, 15, 16, 16, 17]))
        elif key == "GroupIndex":
            rd = [("txn", "GroupIndex")]
            op = r.choice(CMP_OPS)
            c = self.int_ins(r.choice([0, 0, 1, 1, 2, 3, 14, 15, 16]))
        elif key == "Fee":
            rd, _ = self.read("Fee")
            op = r.choice(CMP_OPS)
            if self.chance(0.12):
                c = [("global", "MinTxnFee")]
                self.features.add("fee_vs_mintxnfee")
            else:
                c = self.int_ins(r.choice(FEE_CONSTS))
        elif key == "Addr":
            f = self.focus_addr if (self.focus_addr and self.chance(0.65)) else r.choice(ADDR_FIELDS)
            rd, _ = self.read(f)
            op = r.choice(["==", "==", "!="])
            w = r.random()
            if w < 0.5:
                c = [("global", "ZeroAddress")]
            elif w < 0.6:
                c = [("global", "CreatorAddress")]
                self.features.add("creator")
            else:
                c = [("addr", r.choice(self.lit_addrs))]
        elif key == "Type":
            rd, _ = self.read("TypeEnum")
            op = r.choice(["==", "==", "!="])
            t = r.choice(TYPE_WORDS)
            c = self.int_ins(t if self.chance(0.6) else TYPE_WORDS.index(t) + 1)
            if self.chance(self.p.get("odd_enum_consts", 0.04)):
                # assembler-valid but never satisfiable / unusual comparands
                c = self.int_ins(r.choice([0, 7, 100, "unknown"]))
                self.features.add("odd_enum_constant")
        elif key == "OC":
            rd, _ = self.read("OnCompletion")
            op = r.choice(["==", "==", "!="])
            t = r.choice(OC_WORDS)
            c = self.int_ins(t if self.chance(0.6) else OC_WORDS.index(t))
            if self.chance(self.p.get("odd_enum_consts", 0.04)):
                c = self.int_ins(r.choice([6, 7, 100]))
                self.features.add("odd_enum_constant")
        elif key == "AppID":
            rd, _ = self.read("ApplicationID")
            w = r.random()
            if w < 0.25:
                self.features.add("bare_appid")
                return list(rd)
            if w < 0.4:
                self.features.add("bare_appid")
                return list(rd) + [("!",)]
            op = r.choice(["==", "!="])
            c = self.int_ins(0)
        else:
            raise ValueError(key)
        if order_cf:
            self.features.add("const_left")
            return c + rd + [(op,)]
        return rd + c + [(op,)]

    def setcond(self, key):
        """One governed field compared with two or three distinct constants, joined by `||` (membership in a set) or,
        negated, by `&&` (exclusion of a set)."""
        r = self.r
        n = r.choice([2, 2, 3])
        if key == "Addr":
            f = self.focus_addr or r.choice(ADDR_FIELDS)
            pool = [("addr", a) for a in ["A1", "A2", "A3", "A4", "A5"]] + [("global", "ZeroAddress")]
            consts = r.sample(pool, n)
            for c in consts:
                if c[0] == "addr" and c[1] not in self.lit_addrs:
                    self.lit_addrs.append(c[1])
            consts = [[c] for c in consts]
            rdf = lambda: self.read(f)[0]
        elif key == "Type":
            consts = [self.int_ins(t if self.chance(0.6) else TYPE_WORDS.index(t) + 1) for t in r.sample(TYPE_WORDS, n)]
            rdf = lambda: self.read("TypeEnum")[0]
        elif key == "OC":
            consts = [self.int_ins(t if self.chance(0.6) else OC_WORDS.index(t)) for t in r.sample(OC_WORDS, n)]
            rdf = lambda: self.read("OnCompletion")[0]
        elif key == "GroupSize":
            consts = [self.int_ins(v) for v in r.sample([1, 2, 3, 4, 8, 16], n)]
            rdf = lambda: [("global", "GroupSize")]
        elif key == "GroupIndex":
            consts = [self.int_ins(v) for v in r.sample([0, 1, 2, 3, 15], n)]
            rdf = lambda: [("txn", "GroupIndex")]
        else:
            return self.cmp(key)
        self.features.add("set_condition")
        neg = self.chance(0.3)
        out = []
        for i, c in enumerate(consts):
            one = (c + rdf()) if self.chance(self.p["p_cf"]) else (rdf() + c)
            out += one + [("!=",) if neg else ("==",)]
            if i:
                out.append(("&&",) if neg else ("||",))
        return out

    def opaque(self):
        r = self.r
        f = r.choice(OPAQUE_FIELDS)
        return [("txn", f)] + self.int_ins(r.choice([0, 1, 2, 5])) + [(r.choice(CMP_OPS),)]

    def cond(self, depth=0, key=None):
        r = self.r
        w = r.random()
        if depth >= 2 or w < 0.5:
            if self.chance(0.2):
                c = self.opaque()
            elif depth < 2 and self.chance(self.p.get("set_conditions", 0.1)):
                c = self.setcond(key or r.choice(self.p["keys"]))
            else:
                c = self.cmp(key)
        elif w < 0.7:
            c = self.cond(depth + 1, key) + self.cond(depth + 1) + [("&&",)]
            self.features.add("and")
        elif w < 0.88:
            c = self.cond(depth + 1, key) + self.cond(depth + 1) + [("||",)]
            self.features.add("or")
        else:
            c = self.cond(depth + 1, key) + [("!",)]
            self.features.add("not")
        if not self.p["direct_only"] and self.chance(0.12):
            c = c + self.shuffle_noise()
        return c

    def shuffle_noise(self):
        """Value-preserving or value-changing stack noise applied to a finished condition."""
        self.features.add("shuffle")
        return self.r.choice([
            [("dup",), ("pop",)],
            [("int", 0), ("||",)],
            [("int", 1), ("&&",)],
            [("!",), ("!",)],
            [("int", 5), ("swap",), ("pop",)],
            [("int", 1), ("swap",), ("int", 1), ("select",)],
            [("dup",), ("&&",)],
            [("int", 7), ("cover", 1), ("uncover", 1), ("pop",)],
            [("int", 3), ("dig", 1), ("cover", 2), ("pop",), ("pop",)],
        ])

    # ---- statements (all stack neutral)
    def stmts(self, depth, in_sub, n=None):
        out = []
        n = n if n is not None else self.r.randint(1, self.p["max_stmts"])
        for _ in range(n):
            s = self.stmt(depth, in_sub)
            out.extend(s)
            if s and s[-1][0] in ("return", "err"):
                break
        return out

    def stmt(self, depth, in_sub):
        r = self.r
        kinds = ["check"] * 5 + ["pad", "gread"]
        if self.p["gtxn"] > 0 and self.p.get("pinned_self", True):
            kinds += ["pinned_self"]
        if depth < self.p["max_depth"] and self.seq_ifs < self.p["max_seq_ifs"]:
            kinds += ["if"] * 4
            if self.p["loops"]:
                kinds += ["loop", "doloop"]
            if self.p["switch"]:
                kinds += ["switch"]
        if self.subs_available(in_sub):
            kinds += ["call"] * 3
        if depth > 0:
            kinds += ["ret", "err"]
        if not self.p["direct_only"]:
            kinds += ["carry", "xblock_index", "xblock_cond"]
        for extra, n in self.p.get("weights", {}).items():
            if extra in kinds:
                kinds += [extra] * n
        k = r.choice(kinds)
        if k == "check":
            return self.cond() + [("assert",)]
        if k == "pad":
            return r.choice([
                [("int", 7), ("pop",)],
                [("int", 1), ("int", 2), ("+",), ("pop",)],
                [("txn", "Fee"), ("pop",)],
                [("txn", "Sender"), ("pop",)],
                [("int", 3), ("store", 9)],
            ])
        if k == "gread":
            self.features.add("gread")
            i = r.choice([0, 1, 2])
            w = r.random()
            if self.chance(0.3):
                # a read of another member through an OFFSET: not a read "by absolute index"
                self.features.add("gread_relative")
                k = r.choice([1, 1, 2])
                return [("txn", "GroupIndex")] + self.int_ins(k) + [(r.choice(["+", "-"]),), ("gtxns", "Amount"), ("pop",)]
            if w < 0.45:
                return [("gtxn", i, "Amount"), ("pop",)]
            if w < 0.7:
                return self.int_ins(i) + [("gtxns", "Amount"), ("pop",)]
            self.features.add("gread_array")
            return r.choice([
                [("gtxna", i, "ApplicationArgs", 0), ("pop",)],
                self.int_ins(i) + [("gtxnsa", "ApplicationArgs", 0), ("pop",)],
                [("int", 0), ("gtxnas", i, "ApplicationArgs"), ("pop",)],
                self.int_ins(i) + [("int", 0), ("gtxnsas", "ApplicationArgs"), ("pop",)],
            ])
        if k == "pinned_self":
            # the contract pins its own position and then validates ITS OWN fields through that group slot
            self.features.add("pinned_self_gtxn")
            i = r.choice([0, 0, 1, 2])
            pin = [("txn", "GroupIndex")] + self.int_ins(i) + [("==",)]
            if self.chance(self.p["p_cf"]):
                pin = self.int_ins(i) + [("txn", "GroupIndex"), ("==",)]
            keys = [k2 for k2 in self.p["keys"] if k2 in ("Addr", "Fee", "Type", "OC")] or ["Addr"]
            self.force_abs = i
            try:
                body = []
                for _ in range(r.randint(1, 2)):
                    body += self.cmp(r.choice(keys)) + [("assert",)]
            finally:
                self.force_abs = None
            if self.chance(0.7):
                return pin + [("assert",)] + body
            L = self.lab("PS")
            return pin + [("bz", L)] + body + [("label", L)]
        if k == "xblock_cond":
            # one operand of && / || was pushed in an EARLIER block (tealer sees an unknown stack value there); the
            # conjunction / disjunction is consumed on either side
            self.features.add("carry")
            self.features.add("cond_operand_from_previous_block")
            L, L2 = self.lab("XC"), self.lab("XD")
            boundary = r.choice([[("label", L)], [("b", L), ("label", L)]])
            tail = r.choice([[("assert",)], [("!",), ("assert",)], [("bz", L2), ("err",), ("label", L2)],
                             [("bnz", L2), ("err",), ("label", L2)]])
            return self.opaque() + boundary + self.cmp() + [r.choice([("&&",), ("||",)])] + tail
        if k == "carry":
            self.features.add("carry")
            s = self.nscratch
            self.nscratch += 1
            return self.cond() + [("store", s)] + self.stmts(depth + 1, in_sub, 1) * (1 if self.chance(0.5) else 0) + [("load", s), ("assert",)]
        if k == "xblock_index":
            # the index operand of gtxns is computed from a value pushed in an EARLIER block
            self.features.add("index_across_blocks")
            L = self.lab("XB")
            f = r.choice(["Fee", "TypeEnum", "RekeyTo", "OnCompletion"])
            kk = r.choice([1, 1, 2])
            sign = r.choice(["+", "-"])
            first = r.choice([[("txn", "GroupIndex")], [("int", kk)]])
            second = [("int", kk)] if first[0][0] == "txn" else [("txn", "GroupIndex")]
            boundary = r.choice([[("label", L)], [("b", L), ("label", L)]])
            cmp_tail = {"Fee": self.int_ins(1000) + [("<=",)], "TypeEnum": self.int_ins("pay") + [("==",)],
                        "RekeyTo": [("global", "ZeroAddress"), ("==",)], "OnCompletion": self.int_ins(0) + [("==",)]}[f]
            return first + boundary + second + [(sign,), ("gtxns", f)] + cmp_tail + [("assert",)]
        if k == "call":
            self.features.add("call")
            return [("callsub", r.choice(self.subs_available(in_sub)))]
        if k == "ret":
            w = r.random()
            if w < 0.5:
                return self.int_ins(1) + [("return",)]
            if w < 0.7:
                return self.int_ins(0) + [("return",)]
            self.features.add("retcond")
            return self.cond() + [("return",)]
        if k == "err":
            return [("err",)]
        if k == "if":
            return self.if_stmt(depth, in_sub)
        if k == "loop":
            return self.loop_stmt(depth, in_sub)
        if k == "doloop":
            return self.doloop_stmt(depth, in_sub)
        if k == "switch":
            return self.switch_stmt(depth, in_sub)
        raise ValueError(k)

    def arm(self, depth, in_sub, allow_empty=True):
        if allow_empty and self.chance(0.15):
            return []
        return self.stmts(depth + 1, in_sub, self.r.randint(1, 2))

    def if_stmt(self, depth, in_sub):
        self.seq_ifs += 1
        self.features.add("if")
        c = self.cond()
        style = self.r.choice(["bz", "bnz"])
        a = self.arm(depth, in_sub)
        b = self.arm(depth, in_sub)
        L1, L2 = self.lab(), self.lab()
        hostile = self.p["hostile_layout"]
        out = list(c)
        if not a and not b and hostile:
            # conditional branch to the next line
            self.features.add("branch_to_next")
            return out + [(style, L1), ("label", L1)]
        out.append((style, L1))
        out.extend(a)
        a_term = bool(a) and a[-1][0] in ("return", "err")
        if b:
            if not a_term or self.chance(0.3):
                if a_term:
                    self.features.add("dead_b")
                out.append(("b", L2))
            out.append(("label", L1))
            out.extend(b)
            out.append(("label", L2))
        else:
            out.append(("label", L1))
            if a and a[-1][0] == "callsub":
                self.features.add("label_after_callsub")
        return out

    def loop_stmt(self, depth, in_sub):
        self.features.add("loop")
        s = self.nscratch
        self.nscratch += 1
        top, end = self.lab("T"), self.lab("E")
        n = self.r.choice([1, 2, 3])
        body = self.stmts(depth + 1, in_sub, self.r.randint(1, 2))
        return (
            [("int", 0), ("store", s), ("label", top), ("load", s)] + self.int_ins(n) + [("<",), ("bz", end)]
            + body
            + [("load", s), ("int", 1), ("+",), ("store", s), ("b", top), ("label", end)]
        )

    def doloop_stmt(self, depth, in_sub):
        """do { body } while (++i < n): the back edge targets the first block of the body directly
        (which may be a callsub block, or hold a check)."""
        self.features.add("doloop")
        s = self.nscratch
        self.nscratch += 1
        top = self.lab("D")
        n = self.r.choice([1, 2, 3])
        body = self.stmts(depth + 1, in_sub, self.r.randint(1, 2))
        if self.subs_available(in_sub) and self.chance(0.5):
            body = [("callsub", self.r.choice(self.subs_available(in_sub)))] + body
            self.features.add("call")
        if body and body[-1][0] in ("return", "err"):
            return [("int", 0), ("store", s), ("label", top)] + body
        return (
            [("int", 0), ("store", s), ("label", top)] + body
            + [("load", s), ("int", 1), ("+",), ("store", s), ("load", s)] + self.int_ins(n) + [("<",), ("bnz", top)]
        )

    def switch_stmt(self, depth, in_sub):
        r = self.r
        k = r.randint(1, 3)
        labs = [self.lab("S") for _ in range(k)]
        end = self.lab("SE")
        if self.chance(0.5):
            self.features.add("switch")
            sel = r.choice(["NumAppArgs", "NumAppArgs", "OnCompletion", "TypeEnum", "GroupIndex"])
            if sel != "NumAppArgs":
                self.features.add("switch_on_governed_field")
            head = [("txn", sel), tuple(["switch"] + labs)]
        else:
            self.features.add("match")
            head = [("int", j + 1) for j in range(k)] + [("txn", "NumAppArgs"), tuple(["match"] + labs)]
        out = head
        d = self.arm(depth, in_sub)
        out += d
        if not (d and d[-1][0] in ("return", "err")):
            out.append(("b", end))
        for l in labs:
            out.append(("label", l))
            a = self.arm(depth, in_sub)
            out += a
            if not (a and a[-1][0] in ("return", "err")):
                out.append(("b", end))
        out.append(("label", end))
        return out

    def subs_available(self, in_sub):
        """Subroutines callable from the current procedure (DAG order unless recursion is on)."""
        if in_sub is None:
            return list(self.subs)
        i = self.subs.index(in_sub)
        if self.p["recursion"]:
            return list(self.subs)
        return self.subs[i + 1:]

    # ---- whole program
    def program(self):
        r = self.r
        nsubs = r.randint(0, self.p["max_subs"])
        self.subs = [f"sub{j}" for j in range(nsubs)]
        main = self.stmts(0, None, r.randint(1, self.p["max_stmts"] + 1))
        # execution mode: an instruction available in one mode only makes tealer analyse the program as an application
        # (resp. a logic signature); without one it is taken for a logic signature
        w = r.random()
        pm = self.p.get("mode_marker", 0.45)
        if w < pm * 0.67:
            self.features.add("mode_application")
            main = r.choice([[("byte", '"k"'), ("app_global_get",), ("pop",)], [("byte", '"m"'), ("log",)]]) + main
        elif w < pm:
            self.features.add("mode_signature")
            main = r.choice([[("arg", 0), ("pop",)], [("arg_0",), ("pop",)]]) + main
        end = r.choice(self.p["end_styles"])
        terminated = bool(main) and main[-1][0] in ("return", "err")
        if not terminated:
            if end == "ret1":
                main += [("int", 1), ("return",)]
            elif end == "retcond":
                self.features.add("retcond")
                main += self.cond() + [("return",)]
            elif end == "fall":
                main += [("int", 1)]
        bodies = []
        for name in self.subs:
            self.seq_ifs = 0
            body = self.stmts(1, name, r.randint(1, self.p["max_stmts"]))
            if self.p["recursion"] and self.chance(0.4):
                # bounded recursion through a scratch counter
                self.features.add("recursion")
                s = self.nscratch
                self.nscratch += 1
                skip = self.lab("R")
                body = [("load", s), ("int", 2), (">=",), ("bnz", skip), ("load", s), ("int", 1), ("+",), ("store", s),
                        ("callsub", name), ("label", skip)] + body
            if not (body and body[-1][0] in ("return", "err")):
                body.append(("retsub",))
            elif self.chance(0.5):
                # make sure some path returns to the caller
                L = self.lab("X")
                body = self.opaque() + [("bz", L), ("retsub",), ("label", L)] + body
                self.features.add("sub_approves_internally")
            bodies.append([("label", name)] + body)
        if end == "fall" and not terminated and self.subs:
            # code would fall into the first subroutine: guard with a jump to a final label
            fin = self.lab("FIN")
            prog = main[:-1] + [("b", fin)]
            for b in bodies:
                prog += b
            prog += [("label", fin), ("int", 1)]
            self.features.add("fall_off_end")
        else:
            prog = list(main)
            if end == "fall" and not terminated:
                self.features.add("fall_off_end")
            subs_first = self.p["hostile_layout"] and self.subs and self.chance(self.p.get("p_subs_first", 0.2))
            if subs_first:
                self.features.add("subs_first")
                start = self.lab("MAIN")
                pre = [("b", start)]
                for b in bodies:
                    pre += b
                prog = pre + [("label", start)] + prog
            else:
                for b in bodies:
                    prog += b
        # hostile endings (rare): a conditional branch, or a call, as the very last instruction
        if self.p["hostile_layout"] and self.p.get("hostile_endings", True) and prog and prog[-1] == ("return",) and len(prog) >= 2 and prog[-2] == ("int", 1):
            in_main_tail = (not self.subs) or ("subs_first" in self.features)
            if in_main_tail and self.chance(0.06):
                top = self.lab("TOP")
                # `TOP: int 1; txn NumAppArgs; bnz TOP` : falls off the end with [1] when NumAppArgs == 0
                prog = prog[:-2] + [("label", top), ("int", 1), ("txn", "NumAppArgs"), ("bnz", top)]
                self.features.add("branch_as_last_instruction")
            elif "subs_first" in self.features and self.subs and self.chance(self.p.get("p_call_last", 0.1)):
                prog = prog[:-1] + [("callsub", self.subs[0])]
                self.features.add("call_as_last_instruction")
        if self.intc_vals:
            icb = tuple(["intcblock"] + self.intc_vals)
            w = r.random()
            po = self.p.get("odd_intcblock", 0.15)
            if w < po * 0.5:
                # the constant block is not in the entry block: valid, the constants are the same at run time, but a tool that
                # only reads an entry-block intcblock cannot resolve intc
                self.features.add("unresolved_intc")
                prog = [("b", "ICB0"), ("label", "ICB0"), icb] + prog
            elif w < po:
                # two (identical) constant blocks: the later one takes effect
                self.features.add("unresolved_intc")
                prog = [icb, icb] + prog
            else:
                prog = [icb] + prog
        if self.use_intc and not self.intc_vals:
            pass
        # prune calls to keep at least the structure valid: drop unused subroutine bodies? keep (dead code is legal)
        version = max(min_version(prog), self.r.choice([4, 5, 6, 7, 8, 8, 8]))
        return prog, version, sorted(self.features)


def generate(rng, profile=None):
    if profile and profile.get("lattice"):
        return call_lattice(rng, profile.get("keys"))
    g = Gen(rng, profile)
    prog, version, feats = g.program()
    return {"prog": prog, "version": version, "features": feats}


def call_lattice(rng, keys=None):
    """Programs whose interest is the call structure: 3-6 subroutines, each calling 0-4 later ones (shared callees,
    diamonds), some approving the program themselves on a branch, checks of governed fields after calls."""
    g = Gen(rng, {"direct_only": True, "gtxn": 0.0, "keys": keys or ["Addr", "Fee", "GroupSize", "OC"], "p_cf": 0.0, "intc": 0.0})
    n = rng.randint(3, 6)
    names = ["s%d" % i for i in range(n)]
    prog = []

    def check():
        return g.cond() + [("assert",)]

    main = []
    for _ in range(rng.randint(1, 3)):
        main.append(("callsub", rng.choice(names[:3])))
        if rng.random() < 0.7:
            main += check()
    main += [("int", 1), ("return",)]
    prog += main
    for i, nm in enumerate(names):
        body = [("label", nm)]
        later = names[i + 1:]
        callees = rng.sample(later, min(len(later), rng.randint(0, 4)))
        if rng.random() < 0.45:
            L = "x%d" % i
            body += [("txn", "NumAppArgs"), ("int", i), ("=="), ] if False else [("txn", "NumAppArgs"), ("int", i), ("==",), ("bz", L)]
            if rng.random() < 0.5:
                body += check()
            body += [("int", 1), ("return",), ("label", L)]
        for c in callees:
            body.append(("callsub", c))
            if rng.random() < 0.3:
                body += check()
        body.append(("retsub",))
        prog += body
    version = max(min_version(prog), 6)
    return {"prog": prog, "version": version, "features": ["call-lattice"]}


