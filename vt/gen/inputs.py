"""Enumerate concrete transaction groups for a fragment program: one representative per
region cut out by the program's constants, for every field the program reads.

A group is a list of per-transaction dicts holding ONLY the fields the program reads at
that position; a field that is absent was never read, so every protocol-consistent value
of it yields the same execution ("wildcard").  Checks use `field_value()` to interpret that.
"""
import itertools

from vt.gen.teal import int_value

U64 = (1 << 64) - 1
KIND_FIELDS = ("TypeEnum", "OnCompletion", "ApplicationID")
ADDR_FIELDS = ("RekeyTo", "CloseRemainderTo", "AssetCloseTo", "Sender", "Receiver")
INT_OPS = ("int", "pushint", "intc", "intc_0", "intc_1", "intc_2", "intc_3")
APPID = 77


def _int_of(prog, k, intc):
    ins = prog[k]
    op = ins[0]
    if op in ("int", "pushint"):
        return int_value(ins[1])
    if op == "intc":
        return intc[ins[1]] if intc and ins[1] < len(intc) else None
    if op.startswith("intc_"):
        i = int(op[-1])
        return intc[i] if intc and i < len(intc) else None
    return None


class Reads:
    def __init__(self, prog):
        self.prog = prog
        self.intc = None
        for ins in prog:
            if ins[0] == "intcblock":
                self.intc = [int(x) for x in ins[1:]]
                break
        self.self_fields = {}   # field -> set(nearby consts)
        self.abs = {}           # (i, field) -> consts
        self.rel = {}           # (k, field) -> consts
        self.unknown_gtxns = {}       # field -> consts : index expression not one of the recognised forms
        self.cminus = {}        # (n, field) -> consts : member n - GroupIndex
        self.size_consts = set()
        self.uses_size = False
        self.uses_creator = False
        self.lit_addrs = set()
        self.abs_read_pcs = {}  # pc -> absolute index (gtxn i / int i; gtxns)
        for k, ins in enumerate(prog):
            op = ins[0]
            if op == "addr":
                self.lit_addrs.add(ins[1])
            if op == "global" and ins[1] == "CreatorAddress":
                self.uses_creator = True
            if op == "txn":
                self.self_fields.setdefault(ins[1], set()).update(self._near(k))
            elif op == "gtxn":
                self.abs.setdefault((ins[1], ins[2]), set()).update(self._near(k))
                self.abs_read_pcs[k] = ins[1]
            elif op in ("gtxna", "gtxnas"):
                self.abs_read_pcs[k] = ins[1]          # array reads: only the position matters (group size)
                self.abs.setdefault((ins[1], "__array__"), set())
            elif op == "gtxnsa":
                v = _int_of(prog, k - 1, self.intc) if k >= 1 else None
                if v is not None:
                    self.abs_read_pcs[k] = v
                    self.abs.setdefault((v, "__array__"), set())
            elif op == "gtxnsas":
                v = _int_of(prog, k - 2, self.intc) if k >= 2 else None
                if v is not None:
                    self.abs_read_pcs[k] = v
                    self.abs.setdefault((v, "__array__"), set())
            elif op == "gtxns":
                tgt = self._gtxns_target(k)
                if tgt is None:
                    self.unknown_gtxns.setdefault(ins[1], set()).update(self._near(k))
                elif tgt[0] == "abs":
                    self.abs.setdefault((tgt[1], ins[1]), set()).update(self._near(k))
                    self.abs_read_pcs[k] = tgt[1]
                elif tgt[0] == "self":
                    self.self_fields.setdefault(ins[1], set()).update(self._near(k))
                elif tgt[0] == "cminus":
                    self.cminus.setdefault((tgt[1], ins[1]), set()).update(self._near(k))
                else:
                    self.rel.setdefault((tgt[1], ins[1]), set()).update(self._near(k))
            elif op == "global" and ins[1] == "GroupSize":
                self.uses_size = True
                self.size_consts.update(self._near(k))

    def _near(self, k, w=6):
        out = set()
        for j in range(max(0, k - w), min(len(self.prog), k + w + 1)):
            v = _int_of(self.prog, j, self.intc)
            if v is not None:
                out.add(v)
        return out

    def _gtxns_target(self, k):
        p = self.prog
        if k >= 1:
            v = _int_of(p, k - 1, self.intc)
            if v is not None and p[k - 1][0] in INT_OPS:
                return ("abs", v)
            if p[k - 1] == ("txn", "GroupIndex"):
                return ("self",)
        if k >= 3 and p[k - 1][0] in ("+", "-"):
            a, b = p[k - 3], p[k - 2]
            va, vb = _int_of(p, k - 3, self.intc), _int_of(p, k - 2, self.intc)
            if a == ("txn", "GroupIndex") and vb is not None:
                return ("rel", vb if p[k - 1][0] == "+" else -vb)
            if b == ("txn", "GroupIndex") and va is not None and p[k - 1][0] == "+":
                return ("rel", va)
            if b == ("txn", "GroupIndex") and va is not None and p[k - 1][0] == "-":
                return ("cminus", va)
        return None

    def max_abs(self):
        return max([i for (i, _f) in self.abs] + [-1])


def uint_reps(consts, extra=(), lo=0, hi=U64, limit=9):
    vals = {lo}
    for c in sorted(consts):
        for v in (c - 1, c, c + 1):
            if lo <= v <= hi:
                vals.add(v)
    for v in extra:
        if lo <= v <= hi:
            vals.add(v)
    vals = sorted(vals)
    if len(vals) > limit:
        # keep the extremes and the region boundaries closest to them
        keep = set(vals[:3]) | set(vals[-3:]) | set(extra)
        rest = [v for v in vals if v not in keep]
        step = max(1, len(rest) // max(1, limit - len(keep)))
        keep |= set(rest[::step])
        vals = sorted(keep)
    return vals


def kind_candidates(fields_read):
    full = ("OnCompletion" in fields_read) or ("ApplicationID" in fields_read)
    out = [(1, 0, 0), (2, 0, 0), (3, 0, 0), (4, 0, 0), (5, 0, 0)]
    if full:
        for oc in range(6):
            out.append((6, oc, APPID))
            out.append((6, oc, 0))
    else:
        out += [(6, 0, APPID), (6, 4, APPID), (6, 5, APPID)]
    return out


def field_candidates(reads, field, consts):
    if field in ADDR_FIELDS:
        c = ["ZERO", "ATTACKER"] + sorted(reads.lit_addrs)
        if reads.uses_creator:
            c.append("CREATOR")
        return c
    if field == "Fee":
        return uint_reps(consts, extra=(272000, 272001, U64), limit=10)
    if field == "NumAppArgs":
        return uint_reps(consts, extra=(0, 1, 2, 3), limit=6)
    return uint_reps(consts, extra=(0, 1), limit=6)


def size_index_pairs(reads, mode="reps"):
    if mode == "all":
        return [(s, j) for s in range(1, 17) for j in range(s)]
    gi_consts = reads.self_fields.get("GroupIndex", set())
    sizes = {1, 2, 16}
    sizes.update(v for v in uint_reps(reads.size_consts, lo=1, hi=16, limit=8))
    m = reads.max_abs()
    for v in (m + 1, m + 2):
        if 1 <= v <= 16:
            sizes.add(v)
    for (k, _f) in reads.rel:
        v = abs(k) + 1
        if v <= 16:
            sizes.add(v)
    for (n, _f) in reads.cminus:
        for v in (n + 1, n + 2):
            if v <= 16:
                sizes.add(v)
    pairs = []
    for s in sorted(sizes):
        idx = {0, s - 1}
        idx.update(v for v in uint_reps(gi_consts, lo=0, hi=s - 1, limit=6))
        for (i, _f) in reads.abs:
            if i < s:
                idx.add(i)
            if i + 1 < s:
                idx.add(i + 1)
        for (k, _f) in reads.rel:
            for j in (-k, s - 1 - k, 1):
                if 0 <= j < s:
                    idx.add(j)
        for (n, _f) in reads.cminus:
            for j in (n, n - 1, 0, 1):
                if 0 <= j < s:
                    idx.add(j)
        pairs.extend((s, j) for j in sorted(idx))
    return pairs


def position_dims(reads, s, own):
    """Map each group position to the fields read there, with their nearby constants."""
    pos = {}

    def add(p, f, consts):
        if 0 <= p < s:
            pos.setdefault(p, {}).setdefault(f, set()).update(consts)

    for f, c in reads.self_fields.items():
        if f != "GroupIndex":
            add(own, f, c)
    for (i, f), c in reads.abs.items():
        if f not in ("GroupIndex", "__array__"):
            add(i, f, c)
    for (k, f), c in reads.rel.items():
        if f != "GroupIndex":
            add(own + k, f, c)
    for (n, f), c in reads.cminus.items():
        if f != "GroupIndex" and n - own >= 0:
            add(n - own, f, c)
    for f, c in reads.unknown_gtxns.items():
        for p in range(s):
            add(p, f, c)
    return pos


def normalise(t):
    """Enforce protocol consistency between a transaction's kind and its close-to fields."""
    if "TypeEnum" in t:
        if t["TypeEnum"] != 1 and t.get("CloseRemainderTo", "ZERO") != "ZERO":
            t["CloseRemainderTo"] = "ZERO"
        if t["TypeEnum"] != 4 and t.get("AssetCloseTo", "ZERO") != "ZERO":
            t["AssetCloseTo"] = "ZERO"
    return t


def enumerate_groups(prog, rng, cap=1500, pair_mode="reps", reads=None):
    """Yield (group, own, exhaustive_flag).  Total number of groups <= cap (approximately)."""
    reads = reads or Reads(prog)
    pairs = size_index_pairs(reads, pair_mode)
    if len(pairs) > 40 and pair_mode != "all":
        pairs = rng.sample(pairs, 40)
    per_pair = max(4, cap // max(1, len(pairs)))
    for (s, own) in pairs:
        pos = position_dims(reads, s, own)
        dims = []  # (position, key, candidates) ; key = field or "KIND"
        for p in sorted(pos):
            fr = pos[p]
            if any(f in fr for f in KIND_FIELDS):
                dims.append((p, "KIND", kind_candidates(fr)))
            for f in sorted(fr):
                if f in KIND_FIELDS:
                    continue
                dims.append((p, f, field_candidates(reads, f, fr[f])))
        total = 1
        for d in dims:
            total *= len(d[2])
            if total > 10 ** 9:
                break
        if total <= per_pair:
            combos = itertools.product(*[d[2] for d in dims])
            exhaustive = True
        else:
            combos = ([rng.choice(d[2]) for d in dims] for _ in range(per_pair))
            exhaustive = False
        seen = set()
        for combo in combos:
            group = [dict() for _ in range(s)]
            for (p, key, _c), v in zip(dims, combo):
                if key == "KIND":
                    # only the kind fields actually read at p are materialised ...
                    # but all three are recorded so that checks know the full kind
                    group[p]["TypeEnum"], group[p]["OnCompletion"], group[p]["ApplicationID"] = v
                else:
                    group[p][key] = v
            for t in group:
                normalise(t)
            key = repr(group)
            if key in seen:
                continue
            seen.add(key)
            yield group, own, exhaustive
