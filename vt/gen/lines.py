"""Generator of single TEAL source lines with their ground truth (opcode, field, immediates),
driven by the hand-transcribed AVM table (vt/spec/avm_table.py), never by tealer.

`sample(op, rng)` returns a dict:
  text     the source text of the instruction (no indentation / comment decoration)
  op       opcode name
  imms     list of (kind, value) - value is the DECODED ground truth:
             ints as Python ints, bytes as bytes objects, named constants as their name,
             fields / enum names as strings, labels as strings
  labels   labels the line refers to (the caller must define them)
`decorate(text, rng)` adds indentation, trailing comment, odd spacing.
"""
import base64

from vt.spec import avm_table as A

ADDR_SAMPLES = [
    "AEAQCAIBAEAQCAIBAEAQCAIBAEAQCAIBAEAQCAIBAEAQCAIBAEA5RCDXMI",
    "AIBAEAQCAIBAEAQCAIBAEAQCAIBAEAQCAIBAEAQCAIBAEAQCAIBMXPWWNQ",
    "AAAAAAAAAAAAAAAAAAAAAAAAAAAAAAAAAAAAAAAAAAAAAAAAAAAAY5HFKQ",
]


def int_text(v, rng, allow_radix=True):
    if not allow_radix:
        return str(v)
    w = rng.random()
    if w < 0.6:
        return str(v)
    if w < 0.85:
        return hex(v)
    if v == 0:
        return "0"
    return "0" + oct(v)[2:]


def bytes_text(b, rng):
    """One of the assembler's byte-literal spellings for the byte string b."""
    w = rng.random()
    if not b:
        return rng.choice(["0x", '""'])
    if w < 0.3:
        return "0x" + b.hex()
    if w < 0.45:
        return "base64 " + base64.b64encode(b).decode()
    if w < 0.55:
        return "b64 " + base64.b64encode(b).decode()
    if w < 0.65:
        return "base64(" + base64.b64encode(b).decode() + ")"
    if w < 0.7:
        return "b64(" + base64.b64encode(b).decode() + ")"
    if w < 0.78:
        return "base32 " + base64.b32encode(b).decode().rstrip("=")
    if w < 0.84:
        return "b32(" + base64.b32encode(b).decode().rstrip("=") + ")"
    if w < 0.88:
        return "base32(" + base64.b32encode(b).decode() + ")"
    # quoted string: only when b is printable ASCII without quote/backslash
    try:
        s = b.decode("ascii")
    except UnicodeDecodeError:
        return "0x" + b.hex()
    if all(32 <= ord(c) < 127 and c not in '"\\' for c in s):
        return '"' + s + '"'
    return "0x" + b.hex()


ESCAPED_STRINGS = [
    ('"a\\"b"', b'a"b'), ('"tab\\there"', b"tab\there"), ('"nl\\n"', b"nl\n"), ('"back\\\\slash"', b"back\\slash"),
    ('"\\x41\\x00z"', b"A\x00z"), ('"// not a comment"', b"// not a comment"), ('"a // b"', b"a // b"),
    ('"say \\"hi\\" // x"', b'say "hi" // x'), ('"  lead"', b"  lead"),
]


def escaped_string(rng):
    """(source text, decoded bytes) of a quoted string literal that needs the tokeniser / unescaping to be right."""
    return rng.choice(ESCAPED_STRINGS)


def rand_bytes(rng):
    w = rng.random()
    if w < 0.35:
        words = ["hello", "a b", "x // y", "key", "Hello World", "//", "a  b", ""]
        return rng.choice(words).encode()
    if w < 0.45:
        # base64 spellings that start with, contain or end in `//` (0xffff.. encodes as `//..`)
        tail = bytes(rng.getrandbits(8) for _ in range(rng.choice([0, 1, 2, 4, 7])))
        return rng.choice([b"\xff\xff" + tail, tail[:3].ljust(3, b"a") + b"\xff\xff\xff" + tail, tail + b"\xff\xff\xff"])
    n = rng.choice([0, 1, 2, 4, 8, 32])
    return bytes(rng.getrandbits(8) for _ in range(n))


def field_names(kind, max_version=8):
    table = A.FIELD_TABLES[kind]
    if kind == "txn_field":
        return [k for k, v in table.items() if not v.get("array") and v["v"] <= max_version]
    if kind == "txna_field":
        return [k for k, v in A.TXN_FIELDS.items() if v.get("array") and v["v"] <= max_version]
    return [k for k, v in table.items() if v["v"] <= max_version]


def sample(op, rng, edge=None, radix=True, field=None):
    d = A.OPS[op]
    parts = [op]
    imms = []
    labels = []
    for kind in d["imm"]:
        if kind == "uint8?":
            if rng.random() < 0.6:
                v = edge if edge is not None else rng.choice([0, 0, 1, 2, 7, 255])
                parts.append(int_text(v, rng, radix))
                imms.append(("uint8", v))
        elif kind == "uint8":
            v = edge if edge is not None else rng.choice([0, 1, 2, 3, 7, 15, 255])
            parts.append(int_text(v, rng, radix))
            imms.append((kind, v))
        elif kind == "int8":
            v = rng.choice([-3, -1, 0, 1, 2, 5])
            parts.append(str(v))
            imms.append((kind, v))
        elif kind == "uint64":
            if rng.random() < 0.25:
                name = rng.choice(list(A.TYPE_ENUM_NAMES) + list(A.ON_COMPLETE_NAMES))
                parts.append(name)
                imms.append((kind, name))
            else:
                v = rng.choice([0, 1, 7, 8, 255, 256, 1000, 272000, 2 ** 32, 2 ** 64 - 1])
                parts.append(int_text(v, rng, radix))
                imms.append((kind, v))
        elif kind == "uint64*":
            vs = [rng.choice([0, 1, 8, 9, 100, 65535, 2 ** 64 - 1]) for _ in range(rng.randint(1, 5))]
            parts.extend(int_text(v, rng, radix) for v in vs)
            imms.append((kind, vs))
        elif kind == "bytes":
            if rng.random() < 0.15:
                t, b = escaped_string(rng)
                parts.append(t)
            else:
                b = rand_bytes(rng)
                parts.append(bytes_text(b, rng))
            imms.append((kind, b))
        elif kind == "bytes*":
            bs = []
            for _ in range(rng.randint(1, 4)):
                if rng.random() < 0.15:
                    t, b = escaped_string(rng)
                    parts.append(t)
                else:
                    b = rand_bytes(rng)
                    parts.append(bytes_text(b, rng))
                bs.append(b)
            imms.append((kind, bs))
        elif kind == "label":
            l = "lbl%d" % rng.randint(1, 3)
            parts.append(l)
            imms.append((kind, l))
            labels.append(l)
        elif kind == "label*":
            ls = ["lbl%d" % rng.randint(1, 3) for _ in range(rng.randint(1, 4))]
            parts.extend(ls)
            imms.append((kind, ls))
            labels.extend(ls)
        elif kind == "addr":
            a = rng.choice(ADDR_SAMPLES)
            parts.append(a)
            imms.append((kind, a))
        elif kind == "method_sig":
            m = rng.choice(['"hello(string)string"', '"add(uint64,uint64)uint64"', '"f()void"'])
            parts.append(m)
            imms.append((kind, m))
        elif kind in A.FIELD_TABLES:
            names = field_names(kind)
            f = field if (field is not None and field in names) else rng.choice(names)
            parts.append(f)
            imms.append((kind, f))
        else:
            raise ValueError("unknown immediate kind %s of %s" % (kind, op))
    return {"text": " ".join(parts), "op": op, "imms": imms, "labels": labels}


def decorate(text, rng):
    indent = rng.choice(["", "", "  ", "\t", "    ", " \t "])
    # widen the single spaces between tokens outside quotes
    if '"' not in text and rng.random() < 0.3:
        text = text.replace(" ", rng.choice(["  ", "\t", "   "]))
    tail = rng.choice(["", "", "", " // comment", "\t// x \"quoted\" y", " //", "   ", " // int 5"])
    return indent + text + tail


def all_ops(include_pseudo=True):
    return [op for op in A.OPS if include_pseudo or op not in ("int", "byte", "addr", "method")]
