"""Delta-debugging shrinker for instruction-tuple programs.

`fails(prog)` must return True iff the violation of interest still shows on `prog`.  Candidates that are not
assembler-valid (branch to an undefined label) are skipped.  Also tries simplifying single instructions.
"""
from vt.gen.teal import labels_of


def valid(prog):
    if not prog:
        return False
    labs = [i[1] for i in prog if i[0] == "label"]
    if len(labs) != len(set(labs)):
        return False
    labs = set(labs)
    for ins in prog:
        if ins[0] in ("b", "bz", "bnz", "callsub"):
            if ins[1] not in labs:
                return False
        elif ins[0] in ("switch", "match"):
            if any(l not in labs for l in ins[1:]):
                return False
    return True


def shrink(prog, fails, budget=300):
    prog = list(prog)
    calls = [0]

    def test(p):
        if calls[0] >= budget or not valid(p):
            return False
        calls[0] += 1
        try:
            return bool(fails(p))
        except Exception:
            return False

    n = 2
    while len(prog) >= 2 and calls[0] < budget:
        chunk = max(1, len(prog) // n)
        reduced = False
        i = 0
        while i < len(prog):
            cand = prog[:i] + prog[i + chunk:]
            if test(cand):
                prog = cand
                reduced = True
                n = max(n - 1, 2)
            else:
                i += chunk
        if not reduced:
            if chunk == 1:
                break
            n = min(len(prog), n * 2)
    # drop unused labels one by one
    i = 0
    while i < len(prog) and calls[0] < budget:
        cand = prog[:i] + prog[i + 1:]
        if test(cand):
            prog = cand
        else:
            i += 1
    return prog
