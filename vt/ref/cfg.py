"""Reference control-flow structure computed straight from the instruction tuples.

Instruction-level successor relation as the AVM specification defines it:
fall-through unless the opcode is b/err/return/retsub; jump targets of
b/bz/bnz/switch/match; `callsub L` transfers to L and, on the matching `retsub`,
resumes at the next instruction.  "Local" edges are the intra-procedural view
(callsub falls through to its return point); they define which instructions are
retained and which belong to which subroutine.
"""
from vt.gen.teal import labels_of

NO_FALL = ("b", "err", "return", "retsub")
TRANSFER = ("b", "bz", "bnz", "switch", "match", "callsub", "retsub", "return", "err")


class RefCFG:
    def __init__(self, prog):
        self.prog = prog
        self.n = n = len(prog)
        self.labels = labels_of(prog)
        self.local_succ = []
        for k, ins in enumerate(prog):
            op = ins[0]
            s = []
            if op not in NO_FALL and k + 1 < n:
                s.append(k + 1)
            if op in ("b", "bz", "bnz"):
                s.append(self.labels[ins[1]])
            elif op in ("switch", "match"):
                s.extend(self.labels[l] for l in ins[1:])
            self.local_succ.append(s)
        # subroutines: every label that is the target of some callsub in the source
        self.sub_entry = {}
        self.callsites = []  # (k, name)
        for k, ins in enumerate(prog):
            if ins[0] == "callsub":
                self.callsites.append((k, ins[1]))
                self.sub_entry.setdefault(ins[1], self.labels[ins[1]])
        self.main_members = self._reach(0) if n else set()
        self.sub_members = {name: self._reach(e) for name, e in self.sub_entry.items()}
        self.retained = set(self.main_members)
        for m in self.sub_members.values():
            self.retained |= m
        self.retained_callsites = [(k, name) for k, name in self.callsites if k in self.retained]

    def _reach(self, start):
        seen = {start}
        stack = [start]
        while stack:
            k = stack.pop()
            for s in self.local_succ[k]:
                if s not in seen:
                    seen.add(s)
                    stack.append(s)
        return seen

    def return_point(self, k):
        """Instruction index where execution resumes after the callsub at k (None if k is last)."""
        return k + 1 if k + 1 < self.n else None

    def jump_targets(self):
        t = set()
        for k, ins in enumerate(self.prog):
            if ins[0] in ("b", "bz", "bnz"):
                t.add(self.labels[ins[1]])
            elif ins[0] in ("switch", "match"):
                t.update(self.labels[l] for l in ins[1:])
            elif ins[0] == "callsub":
                t.add(self.labels[ins[1]])
        return t

    def owners(self, k):
        """Names of the procedures ('__main__' or subroutine names) whose local graph contains k."""
        o = []
        if k in self.main_members:
            o.append("__main__")
        for name, m in self.sub_members.items():
            if k in m:
                o.append(name)
        return o

    def disjoint(self):
        """True iff every retained instruction belongs to exactly one procedure (bodies entered only via callsub)."""
        for k in self.retained:
            if len(self.owners(k)) != 1:
                return False
        return True

    def can_fall_off_end(self, k):
        """True iff after executing instruction k control may run past the end of the program."""
        op = self.prog[k][0]
        if k != self.n - 1:
            return False
        return op not in NO_FALL and op != "callsub"
