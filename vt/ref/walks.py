"""Abstract walk oracle (independent of tealer) for the direct-check fragment.

Question answered: for a governed key K and a representative value v, which instructions lie on an accepting walk
of the program when comparisons of K against constants are evaluated exactly for v and every other condition may go
either way?  Two flavours: `valid` (every retsub returns to the instruction after its own callsub; explicit-state
search over (pc, call stack)) and `ci` (a retsub may return to any call site of its subroutine).

Conditions are reconstructed per straight-line segment (from a label / the instruction after a transfer up to the
consumer) by a small symbolic stack; whatever is not a comparison of K with a constant joined by && || ! is unknown.
Recursion is not supported (callers exclude recursive programs).
"""
from vt.gen.teal import int_value, labels_of
from vt.spec import avm_table as A

TRANSFER = ("b", "bz", "bnz", "switch", "match", "callsub", "retsub", "return", "err")
INT_PUSH = ("int", "pushint", "intc", "intc_0", "intc_1", "intc_2", "intc_3")
KIND_FIELDS = ("TypeEnum", "OnCompletion", "ApplicationID")
U64 = (1 << 64) - 1


class Key:
    """A governed key: which reads denote it and how a comparison with a constant evaluates for value v.

    upward=True (integers only) gives the semantics of a domain that keeps a single upper bound: an outcome of a
    condition is possible for v if it is possible for some v' >= v (a larger value "carries" v along)."""

    def __init__(self, name, upward=False, target="self"):
        self.name = name
        self.upward = upward
        self.target = target     # "self" | ("abs", i) | ("rel", k): which group member's field is governed

    def is_read(self, sym):
        n = self.name
        if n == "GroupSize":
            return sym == ("glob", "GroupSize")
        if n == "Kind":
            return sym[0] == "read" and sym[1] == self.target and sym[2] in KIND_FIELDS
        return sym[0] == "read" and sym[1] == self.target and sym[2] == n

    def read_value(self, sym, v):
        if self.name == "Kind":
            return v[KIND_FIELDS.index(sym[2])]
        return v


def const_value(sym):
    """Concrete value of a constant symbol, or None."""
    if sym[0] == "const":
        return sym[1]
    if sym[0] == "addrconst":
        return ("A", sym[1])
    if sym == ("glob", "ZeroAddress"):
        return ("A", "ZERO")
    if sym == ("glob", "CreatorAddress"):
        return ("A", "CREATOR")
    if sym == ("glob", "MinTxnFee"):
        return 1000
    return None


def ev(sym, key, v):
    """Three-valued evaluation: True / False / None (unknown)."""
    t = sym[0]
    if t == "const":
        # a literal used as a condition is not a comparison of the governed field: free
        # (the only literal the fragment gives a meaning to is `int 0; return`, handled in succ())
        return None
    if t == "not":
        x = ev(sym[1], key, v)
        return None if x is None else (not x)
    if t == "and":
        a, b = ev(sym[1], key, v), ev(sym[2], key, v)
        if a is False or b is False:
            return False
        if a is True and b is True:
            return True
        return None
    if t == "or":
        a, b = ev(sym[1], key, v), ev(sym[2], key, v)
        if a is True or b is True:
            return True
        if a is False and b is False:
            return False
        return None
    if t == "cmp":
        op, a, b = sym[1], sym[2], sym[3]
        ka, kb = key.is_read(a), key.is_read(b)
        if ka and not kb:
            c = const_value(b)
            if c is None:
                return None
            x = key.read_value(a, v)
            return _cmp_key(key, op, x, c, True)
        if kb and not ka:
            c = const_value(a)
            if c is None:
                return None
            x = key.read_value(b, v)
            return _cmp_key(key, op, x, c, False)
        return None
    if t == "read" and key.name == "Kind" and sym[1] == "self" and sym[2] == "ApplicationID":
        # documented shape: `txn ApplicationID` used directly as a condition
        return key.read_value(sym, v) != 0
    return None


def _cmp_key(key, op, x, c, field_first):
    """One comparison of the key's value x with constant c.  For an 'upward' key every single comparison is judged
    on its own for some x' >= x (non-relational, like a domain that keeps one upper bound per program point)."""
    def one(xx):
        return compare(op, xx, c) if field_first else compare(op, c, xx)
    if not getattr(key, "upward", False) or isinstance(x, tuple) or isinstance(c, tuple):
        return one(x)
    res = set()
    for xx in (x, c - 1, c, c + 1, U64):
        if x <= xx <= U64:
            res.add(one(xx))
    if len(res) > 1 or None in res:
        return None
    return res.pop()


def consts_in(sym, acc=None):
    acc = set() if acc is None else acc
    if sym[0] == "const":
        acc.add(sym[1])
    elif sym[0] in ("cmp",):
        consts_in(sym[2], acc)
        consts_in(sym[3], acc)
    elif sym[0] in ("and", "or"):
        consts_in(sym[1], acc)
        consts_in(sym[2], acc)
    elif sym[0] == "not":
        consts_in(sym[1], acc)
    return acc


def ev_key(sym, key, v):
    """ev() under the key's semantics (see _cmp_key for upward keys)."""
    return ev(sym, key, v)


def compare(op, x, c):
    xa, ca = isinstance(x, tuple), isinstance(c, tuple)
    if xa != ca:
        return None
    if xa:
        if op == "==":
            return x == c
        if op == "!=":
            return x != c
        return None
    return {"==": x == c, "!=": x != c, "<": x < c, "<=": x <= c, ">": x > c, ">=": x >= c}[op]


class Program:
    def __init__(self, prog):
        self.prog = list(prog)
        self.n = len(self.prog)
        self.labels = labels_of(self.prog)
        self.intc = None
        for ins in self.prog:
            if ins[0] == "intcblock":
                self.intc = [int(x) for x in ins[1:]]
                break
        # segment starts: index 0, labels, instruction after a transfer
        starts = {0}
        for k, ins in enumerate(self.prog):
            if ins[0] == "label":
                starts.add(k)
            if ins[0] in TRANSFER and k + 1 < self.n:
                starts.add(k + 1)
        self.starts = starts
        self.top_at = {}        # pc of a consumer -> symbolic value it pops
        self.top_at_end = None  # symbolic top of stack when running past the last instruction
        self._symbolic()
        # call structure
        self.sub_of = {}        # pc -> subroutine name or "__main__" (procedure membership by local reachability)
        self.callsites = {}     # name -> [pc]
        for k, ins in enumerate(self.prog):
            if ins[0] == "callsub":
                self.callsites.setdefault(ins[1], []).append(k)
        self._membership()

    def _sym_of(self, k):
        ins = self.prog[k]
        op = ins[0]
        if op in ("int", "pushint"):
            return ("const", int_value(ins[1]))
        if op == "intc" or op.startswith("intc_"):
            i = ins[1] if op == "intc" else int(op[-1])
            if self.intc is not None and i < len(self.intc):
                return ("const", self.intc[i])
            return ("opaque",)
        if op == "addr":
            return ("addrconst", ins[1])
        if op == "global":
            return ("glob", ins[1])
        if op == "txn":
            return ("read", "self", ins[1])
        if op == "gtxn":
            return ("read", ("abs", ins[1]), ins[2])
        return None

    def _symbolic(self):
        stack = []
        for k, ins in enumerate(self.prog):
            if k in self.starts:
                stack = []
            op = ins[0]

            def pop():
                return stack.pop() if stack else ("opaque",)

            if op == "label":
                continue
            s = self._sym_of(k)
            if s is not None:
                stack.append(s)
                continue
            if op in ("==", "!=", "<", "<=", ">", ">="):
                b = pop()
                a = pop()
                stack.append(("cmp", op, a, b))
            elif op == "&&":
                b = pop()
                a = pop()
                stack.append(("and", a, b))
            elif op == "||":
                b = pop()
                a = pop()
                stack.append(("or", a, b))
            elif op == "!":
                a = pop()
                stack.append(("not", a))
            elif op in ("assert", "bz", "bnz", "return"):
                self.top_at[k] = pop()
                if op == "return":
                    stack = []
            elif op in ("+", "-"):
                b = pop()
                a = pop()
                stack.append(("arith", op, a, b))
            elif op == "gtxns":
                idx = pop()
                tgt = None
                gi = ("read", "self", "GroupIndex")
                if idx[0] == "const":
                    tgt = ("abs", idx[1])
                elif idx == gi:
                    tgt = "self"
                elif idx[0] == "arith":
                    _o, a, b = idx[1], idx[2], idx[3]
                    if a == gi and b[0] == "const":
                        tgt = ("rel", b[1] if _o == "+" else -b[1])
                    elif b == gi and a[0] == "const" and _o == "+":
                        tgt = ("rel", a[1])
                stack.append(("read", tgt, ins[1]) if tgt is not None else ("opaque",))
            elif op in ("gtxna",):
                stack.append(("opaque",))
            elif op in ("gtxnsa", "gtxnas"):
                pop()
                stack.append(("opaque",))
            elif op == "gtxnsas":
                pop()
                pop()
                stack.append(("opaque",))
            else:
                imms = []
                for x in ins[1:]:
                    imms.append(x)
                try:
                    pops, pushes = A.stack_effect(op, tuple(imms)) if op in A.OPS else (0, 0)
                except Exception:
                    pops, pushes = 0, 0
                if op in ("switch", "match"):
                    pops = (len(ins) - 1 + 1) if op == "match" else 1
                    pushes = 0
                for _ in range(pops):
                    pop()
                for _ in range(pushes):
                    stack.append(("opaque",))
        self.top_at_end = stack[-1] if stack else ("opaque",)
        self.depth_at_end = len(stack)

    def _membership(self):
        def reach(start):
            seen, work = set(), [start]
            while work:
                k = work.pop()
                if k in seen or k >= self.n:
                    continue
                seen.add(k)
                op = self.prog[k][0]
                if op in ("b",):
                    work.append(self.labels[self.prog[k][1]])
                elif op in ("bz", "bnz"):
                    work.append(self.labels[self.prog[k][1]])
                    work.append(k + 1)
                elif op in ("switch", "match"):
                    work.extend(self.labels[l] for l in self.prog[k][1:])
                    work.append(k + 1)
                elif op in ("err", "return", "retsub"):
                    pass
                else:
                    work.append(k + 1)
            return seen
        self.members = {"__main__": reach(0)}
        for name in self.callsites:
            self.members[name] = reach(self.labels[name])
        for name, ms in self.members.items():
            for k in ms:
                self.sub_of.setdefault(k, name)

    def is_recursive(self):
        graph = {}
        for name, sites in self.callsites.items():
            for k in sites:
                graph.setdefault(self.sub_of.get(k, "__main__"), set()).add(name)
        seen = {}

        def dfs(u, stack):
            if u in stack:
                return True
            if u in seen:
                return False
            seen[u] = True
            return any(dfs(w, stack | {u}) for w in graph.get(u, ()))
        return any(dfs(u, frozenset()) for u in list(graph))

    def multi_site_subs(self):
        """Subroutines that are, or whose callers transitively are, called from several sites."""
        multi = set(n for n, s in self.callsites.items() if len(s) > 1)
        changed = True
        while changed:
            changed = False
            for name, sites in self.callsites.items():
                if name in multi:
                    continue
                for k in sites:
                    if self.sub_of.get(k) in multi:
                        multi.add(name)
                        changed = True
        return multi

    # ------------------------------------------------------------------ abstract successor relation
    def succ(self, k, key, v):
        """List of ('pc', k2) / ('call', target, ret) / ('ret',) / ('accept',) steps allowed from pc k under key=v."""
        if k >= self.n:
            # running past the last instruction: the value left on the stack is not one of the consumers the
            # direct-check fragment names (assert / bz / bnz / return), so it is left free
            return [("accept",)]
        ins = self.prog[k]
        op = ins[0]
        if op == "assert":
            t = ev_key(self.top_at[k], key, v)
            return [] if t is False else [("pc", k + 1)]
        if op in ("bz", "bnz"):
            t = ev_key(self.top_at[k], key, v)
            jump = ("pc", self.labels[ins[1]])
            fall = ("pc", k + 1)
            if t is None:
                return [fall, jump]
            taken = (t is False) if op == "bz" else (t is True)
            return [jump] if taken else [fall]
        if op == "return":
            top = self.top_at[k]
            if top[0] == "const":
                return [] if top[1] == 0 else [("accept",)]
            t = ev_key(top, key, v)
            return [] if t is False else [("accept",)]
        if op == "err":
            return []
        if op == "b":
            return [("pc", self.labels[ins[1]])]
        if op in ("switch", "match"):
            return [("pc", k + 1)] + [("pc", self.labels[l]) for l in ins[1:]]
        if op == "callsub":
            return [("call", self.labels[ins[1]], k + 1)]
        if op == "retsub":
            return [("ret",)]
        return [("pc", k + 1)]

    def admitted(self, key, v, mode="valid", max_states=200000):
        """Set of pcs lying on an accepting walk under key=v.  mode: 'valid' | 'ci'."""
        if mode == "ci":
            return self._admitted_ci(key, v)
        # forward exploration of (pc, stack) states, recording edges; then backward from accepting states
        start = (0, ())
        edges = {}
        accepting = set()
        seen = {start}
        work = [start]
        while work:
            st = work.pop()
            pc, stack = st
            outs = []
            for step in self.succ(pc, key, v):
                if step[0] == "accept":
                    accepting.add(st)
                elif step[0] == "pc":
                    outs.append((step[1], stack))
                elif step[0] == "call":
                    if len(stack) < 8:
                        outs.append((step[1], stack + (step[2],)))
                elif step[0] == "ret":
                    if stack:
                        outs.append((stack[-1], stack[:-1]))
            edges[st] = outs
            for o in outs:
                if o not in seen:
                    if len(seen) > max_states:
                        raise OverflowError("state space too large")
                    seen.add(o)
                    work.append(o)
        rev = {}
        for a, outs in edges.items():
            for b in outs:
                rev.setdefault(b, []).append(a)
        good = set(accepting)
        work = list(accepting)
        while work:
            s = work.pop()
            for p in rev.get(s, ()):
                if p not in good:
                    good.add(p)
                    work.append(p)
        return set(pc for pc, _stk in good if pc < self.n)

    def _admitted_ci(self, key, v):
        ret_points = {}
        for name, sites in self.callsites.items():
            ret_points[name] = [k + 1 for k in sites]
        edges = {}
        accepting = set()
        seen = {0}
        work = [0]
        while work:
            pc = work.pop()
            outs = []
            for step in self.succ(pc, key, v):
                if step[0] == "accept":
                    accepting.add(pc)
                elif step[0] == "pc":
                    outs.append(step[1])
                elif step[0] == "call":
                    outs.append(step[1])
                elif step[0] == "ret":
                    name = self.sub_of.get(pc)
                    outs.extend(ret_points.get(name, []))
            edges[pc] = outs
            for o in outs:
                if o not in seen:
                    seen.add(o)
                    work.append(o)
        rev = {}
        for a, outs in edges.items():
            for b in outs:
                rev.setdefault(b, []).append(a)
        good = set(accepting)
        work = list(accepting)
        while work:
            s = work.pop()
            for p in rev.get(s, ()):
                if p not in good:
                    good.add(p)
                    work.append(p)
        return set(pc for pc in good if pc < self.n)

    def exists_walk_within(self, allowed, need_pc=None):
        """Is there a matched-return walk from the entry to a terminating point using only pcs in `allowed`
        (conditions ignored), optionally passing through one of `need_pc`?"""
        start = (0, (), False)
        if 0 not in allowed and self.n:
            return False
        seen = {start}
        work = [start]
        while work:
            pc, stack, hit = work.pop()
            if pc >= self.n:
                if hit or need_pc is None:
                    return True
                continue
            if pc not in allowed:
                continue
            hit2 = hit or (need_pc is not None and pc in need_pc)
            ins = self.prog[pc]
            op = ins[0]
            nxt = []
            if op == "return":
                if hit2 or need_pc is None:
                    return True
                continue
            if op == "err":
                continue
            if op == "b":
                nxt.append((self.labels[ins[1]], stack))
            elif op in ("bz", "bnz"):
                nxt.append((k1 := pc + 1, stack))
                nxt.append((self.labels[ins[1]], stack))
            elif op in ("switch", "match"):
                nxt.append((pc + 1, stack))
                nxt.extend((self.labels[l], stack) for l in ins[1:])
            elif op == "callsub":
                if len(stack) < 8:
                    nxt.append((self.labels[ins[1]], stack + (pc + 1,)))
            elif op == "retsub":
                if stack:
                    nxt.append((stack[-1], stack[:-1]))
            else:
                nxt.append((pc + 1, stack))
            for p2, s2 in nxt:
                st = (p2, s2, hit2)
                if st not in seen:
                    seen.add(st)
                    work.append(st)
        return False


def _selftest():
    P = Program([("txn", "RekeyTo"), ("global", "ZeroAddress"), ("==",), ("assert",), ("int", 1), ("return",)])
    k = Key("RekeyTo")
    assert P.admitted(k, ("A", "ATTACKER")) == set()
    assert 5 in P.admitted(k, ("A", "ZERO"))
    P = Program([("int", 15), ("global", "GroupSize"), ("<",), ("assert",), ("int", 1), ("return",)])
    k = Key("GroupSize")
    assert [v for v in range(1, 17) if P.admitted(k, v)] == [16]
    P = Program([("txn", "Fee"), ("int", 1000), ("<=",), ("bz", "bad"), ("int", 1), ("return",), ("label", "bad"), ("err",)])
    k = Key("Fee")
    assert P.admitted(k, 1000) and not P.admitted(k, 1001)
    # matched returns: f is called from two sites, only the first is followed by a check
    P = Program([("callsub", "f"), ("txn", "RekeyTo"), ("global", "ZeroAddress"), ("==",), ("assert",), ("int", 1), ("return",),
                 ("label", "g"), ("callsub", "f"), ("int", 1), ("return",), ("label", "f"), ("retsub",)])
    k = Key("RekeyTo")
    assert 12 not in P.admitted(k, ("A", "ATTACKER"), "valid")
    P2 = Program([("txn", "Fee"), ("bnz", "g"), ("callsub", "f"), ("txn", "RekeyTo"), ("global", "ZeroAddress"), ("==",), ("assert",), ("int", 1), ("return",),
                  ("label", "g"), ("callsub", "f"), ("int", 1), ("return",), ("label", "f"), ("retsub",)])
    assert 14 in P2.admitted(k, ("A", "ATTACKER"), "valid") and 2 not in P2.admitted(k, ("A", "ATTACKER"), "valid")
    assert 2 in P2.admitted(k, ("A", "ATTACKER"), "ci")
    return True


if __name__ == "__main__":
    print("walks selftest", _selftest())
