"""Reference interpreter for the modelled TEAL fragment (independent of tealer).

Executes instruction tuples (vt.gen.teal) for ONE program on ONE concrete group with
the governed transaction at index `own`.  Values are Python ints (uint64) or byte
atoms ("B", name): only equality is defined on bytes, which is all the fragment
does with them.  Semantics transcribed from the AVM specification (v8):
panics on stack underflow, type errors, uint64 overflow/underflow, bad group or
constant index; `return` keeps the top value; running past the last instruction
succeeds iff exactly one non-zero uint64 remains.
"""
from vt.gen.teal import int_value, labels_of

U64 = (1 << 64) - 1
ADDR_FIELDS = {
    "Sender", "Receiver", "CloseRemainderTo", "AssetCloseTo", "RekeyTo",
    "AssetSender", "AssetReceiver",
}
BYTES_FIELDS = ADDR_FIELDS | {"Note", "Lease", "TxID"}
MAX_STEPS = 20000
MAX_CALL_DEPTH = 8


class Panic(Exception):
    pass


def B(atom):
    return ("B", atom)


def is_bytes(v):
    return isinstance(v, tuple)


def txn_field(group, idx, field):
    t = group[idx]
    if field == "GroupIndex":
        return idx
    if field in t:
        v = t[field]
        return B(v) if field in BYTES_FIELDS else v
    if field in BYTES_FIELDS:
        return B("ZERO") if field in ADDR_FIELDS else B("EMPTY")
    return 0


def global_field(group, env, field):
    if field == "GroupSize":
        return len(group)
    if field == "ZeroAddress":
        return B("ZERO")
    if field == "CreatorAddress":
        return B("CREATOR")
    if field == "MinTxnFee":
        return 1000
    if field == "MinBalance":
        return 100000
    if field == "MaxTxnLife":
        return 1000
    if field in env:
        return env[field]
    return 1  # Round, LatestTimestamp, ... : some positive number


def run(prog, group, own, env=None, labels=None, max_steps=MAX_STEPS):
    """Execute. Returns dict(ok, trace, why). trace = executed instruction indices."""
    env = env or {}
    if labels is None:
        labels = labels_of(prog)
    stack = []
    scratch = {}
    intc = None
    calls = []
    trace = []
    pc = 0
    n = len(prog)
    steps = 0

    def pop():
        if not stack:
            raise Panic("stack underflow")
        return stack.pop()

    def pop_int():
        v = pop()
        if is_bytes(v):
            raise Panic("expected uint64, got bytes")
        return v

    def pop_bytes():
        v = pop()
        if not is_bytes(v):
            raise Panic("expected bytes, got uint64")
        return v

    try:
        while pc < n:
            steps += 1
            if steps > max_steps:
                return {"ok": False, "trace": trace, "why": "step-limit"}
            ins = prog[pc]
            op = ins[0]
            trace.append(pc)
            nxt = pc + 1
            if op == "label":
                pass
            elif op in ("int", "pushint"):
                stack.append(int_value(ins[1]))
            elif op == "addr":
                stack.append(B(ins[1]))
            elif op in ("byte", "pushbytes"):
                stack.append(B("lit:" + str(ins[1])))
            elif op == "arg":
                stack.append(B("ARG%d" % ins[1]))
            elif op in ("arg_0", "arg_1", "arg_2", "arg_3"):
                stack.append(B("ARG" + op[-1]))
            elif op == "app_global_get":
                pop_bytes()
                stack.append(0)
            elif op == "log":
                pop_bytes()
            elif op == "intcblock":
                intc = [int(x) for x in ins[1:]]
            elif op in ("intc", "intc_0", "intc_1", "intc_2", "intc_3"):
                i = ins[1] if op == "intc" else int(op[-1])
                if intc is None or i >= len(intc):
                    raise Panic("intc index out of range")
                stack.append(intc[i])
            elif op == "txn":
                stack.append(txn_field(group, own, ins[1]))
            elif op == "gtxn":
                if ins[1] >= len(group):
                    raise Panic("gtxn index beyond group")
                stack.append(txn_field(group, ins[1], ins[2]))
            elif op == "gtxns":
                i = pop_int()
                if i >= len(group):
                    raise Panic("gtxns index beyond group")
                stack.append(txn_field(group, i, ins[1]))
            elif op == "gtxna":
                if ins[1] >= len(group):
                    raise Panic("gtxna index beyond group")
                stack.append(B("arr:%s" % ins[2]))
            elif op == "gtxnsa":
                i = pop_int()
                if i >= len(group):
                    raise Panic("gtxnsa index beyond group")
                stack.append(B("arr:%s" % ins[1]))
            elif op == "gtxnas":
                pop_int()
                if ins[1] >= len(group):
                    raise Panic("gtxnas index beyond group")
                stack.append(B("arr:%s" % ins[2]))
            elif op == "gtxnsas":
                pop_int()
                i = pop_int()
                if i >= len(group):
                    raise Panic("gtxnsas index beyond group")
                stack.append(B("arr:%s" % ins[1]))
            elif op == "global":
                stack.append(global_field(group, env, ins[1]))
            elif op in ("==", "!="):
                b = pop()
                a = pop()
                if is_bytes(a) != is_bytes(b):
                    raise Panic("== on mixed types")
                r = a == b
                stack.append(int(r if op == "==" else not r))
            elif op in ("<", "<=", ">", ">="):
                b = pop_int()
                a = pop_int()
                r = {"<": a < b, "<=": a <= b, ">": a > b, ">=": a >= b}[op]
                stack.append(int(r))
            elif op == "&&":
                b = pop_int()
                a = pop_int()
                stack.append(int(a != 0 and b != 0))
            elif op == "||":
                b = pop_int()
                a = pop_int()
                stack.append(int(a != 0 or b != 0))
            elif op == "!":
                a = pop_int()
                stack.append(int(a == 0))
            elif op == "+":
                b = pop_int()
                a = pop_int()
                if a + b > U64:
                    raise Panic("+ overflow")
                stack.append(a + b)
            elif op == "-":
                b = pop_int()
                a = pop_int()
                if b > a:
                    raise Panic("- underflow")
                stack.append(a - b)
            elif op == "*":
                b = pop_int()
                a = pop_int()
                if a * b > U64:
                    raise Panic("* overflow")
                stack.append(a * b)
            elif op in ("&", "|", "^"):
                b = pop_int()
                a = pop_int()
                stack.append({"&": a & b, "|": a | b, "^": a ^ b}[op])
            elif op in ("/", "%"):
                b = pop_int()
                a = pop_int()
                if b == 0:
                    raise Panic("division by zero")
                stack.append(a // b if op == "/" else a % b)
            elif op == "pop":
                pop()
            elif op == "dup":
                a = pop()
                stack.extend([a, a])
            elif op == "dup2":
                b = pop()
                a = pop()
                stack.extend([a, b, a, b])
            elif op == "swap":
                b = pop()
                a = pop()
                stack.extend([b, a])
            elif op == "dig":
                k = ins[1]
                if k >= len(stack):
                    raise Panic("dig beyond stack")
                stack.append(stack[-1 - k])
            elif op == "cover":
                k = ins[1]
                if k >= len(stack):
                    raise Panic("cover beyond stack")
                v = stack.pop()
                stack.insert(len(stack) - k, v)
            elif op == "uncover":
                k = ins[1]
                if k >= len(stack):
                    raise Panic("uncover beyond stack")
                v = stack.pop(len(stack) - 1 - k)
                stack.append(v)
            elif op == "select":
                c = pop_int()
                b = pop()
                a = pop()
                stack.append(b if c != 0 else a)
            elif op == "load":
                stack.append(scratch.get(ins[1], 0))
            elif op == "store":
                scratch[ins[1]] = pop()
            elif op == "assert":
                if pop_int() == 0:
                    raise Panic("assert failed")
            elif op == "err":
                raise Panic("err")
            elif op == "return":
                v = pop()
                stack[:] = [v]
                nxt = n
            elif op == "b":
                nxt = labels[ins[1]]
            elif op == "bz":
                if pop_int() == 0:
                    nxt = labels[ins[1]]
            elif op == "bnz":
                if pop_int() != 0:
                    nxt = labels[ins[1]]
            elif op == "switch":
                i = pop_int()
                if i < len(ins) - 1:
                    nxt = labels[ins[1 + i]]
            elif op == "match":
                k = len(ins) - 1
                v = pop()
                if k > len(stack):
                    raise Panic("match underflow")
                cases = stack[len(stack) - k:] if k else []
                del stack[len(stack) - k:]
                for j, c in enumerate(cases):
                    if is_bytes(c) == is_bytes(v) and c == v:
                        nxt = labels[ins[1 + j]]
                        break
            elif op == "callsub":
                if len(calls) >= MAX_CALL_DEPTH:
                    raise Panic("call depth")
                calls.append(pc + 1)
                nxt = labels[ins[1]]
            elif op == "retsub":
                if not calls:
                    raise Panic("retsub with empty call stack")
                nxt = calls.pop()
            else:
                raise Panic("unmodelled opcode " + op)
            pc = nxt
    except Panic as e:
        return {"ok": False, "trace": trace, "why": str(e)}
    if len(stack) != 1:
        return {"ok": False, "trace": trace, "why": "stack size %d at end" % len(stack)}
    if is_bytes(stack[0]):
        return {"ok": False, "trace": trace, "why": "bytes at end"}
    if stack[0] == 0:
        return {"ok": False, "trace": trace, "why": "zero at end"}
    return {"ok": True, "trace": trace, "why": "approved"}


def _selftest():
    P = [("int", 1), ("return",)]
    assert run(P, [{}], 0)["ok"]
    P = [("int", 0), ("return",)]
    assert not run(P, [{}], 0)["ok"]
    P = [("int", 15), ("global", "GroupSize"), ("<",), ("assert",), ("int", 1)]
    assert run(P, [{}] * 16, 0)["ok"] and not run(P, [{}] * 15, 0)["ok"]
    P = [("txn", "RekeyTo"), ("global", "ZeroAddress"), ("==",), ("bnz", "n"), ("label", "n"), ("int", 1), ("return",)]
    assert run(P, [{"RekeyTo": "ATT"}], 0)["ok"]
    P = [("callsub", "f"), ("int", 1), ("return",), ("label", "f"), ("retsub",)]
    r = run(P, [{}], 0)
    assert r["ok"] and r["trace"] == [0, 3, 4, 1, 2]
    P = [("int", 1), ("int", 2), ("int", 3), ("cover", 2)]
    # stack 3 1 2 -> three values at end -> reject
    assert not run(P, [{}], 0)["ok"]
    P = [("int", 5), ("int", 6), ("int", 0), ("select",), ("int", 5), ("==",)]
    assert run(P, [{}], 0)["ok"]
    P = [("int", 7), ("int", 1), ("int", 2), ("uncover", 2), ("int", 7), ("==",), ("assert",), ("pop",), ("pop",), ("int", 1)]
    assert run(P, [{}], 0)["ok"]
    P = [("gtxn", 1, "Fee"), ("pop",), ("int", 1)]
    assert not run(P, [{}], 0)["ok"] and run(P, [{}, {}], 0)["ok"]
    P = [("txn", "GroupIndex"), ("int", 1), ("+",), ("gtxns", "Fee"), ("int", 7), ("==",)]
    assert run(P, [{}, {"Fee": 7}], 0)["ok"] and not run(P, [{}, {"Fee": 7}], 1)["ok"]
    P = [("int", 1), ("switch", "a", "b"), ("err",), ("label", "a"), ("err",), ("label", "b"), ("int", 1)]
    assert run(P, [{}], 0)["ok"]
    P = [("int", 1), ("int", 2), ("int", 2), ("match", "a", "b"), ("err",), ("label", "a"), ("err",), ("label", "b"), ("int", 1)]
    assert run(P, [{}], 0)["ok"]
    P = [("label", "top"), ("int", 1), ("txn", "Fee"), ("bz", "top")]
    assert run(P, [{"Fee": 3}], 0)["ok"] and run(P, [{"Fee": 0}], 0)["why"] == "step-limit"
    P = [("txn", "Sender"), ("int", 1), ("==",)]
    assert not run(P, [{}], 0)["ok"]
    P = [("int", 1), ("int", 2), ("-",)]
    assert not run(P, [{}], 0)["ok"]
    return True


if __name__ == "__main__":
    print("avm selftest", _selftest())
