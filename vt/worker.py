"""Worker process: runs one batch of a check and prints `RESULT <json>` on stdout."""
import json
import sys
import traceback

from vt import common


def main():
    prop = sys.argv[1].upper()
    spec = json.loads(sys.stdin.read())
    import importlib

    mod = importlib.import_module("vt.checks." + prop.lower())
    import os
    from vt.mon import probes
    if os.environ.get("VT_PROBES", "1") != "0" and spec.get("batch", 0) == 0:
        probes.start()  # reach counters are taken in one batch only (PY_START callbacks roughly double the run time)
    if "replay" in spec:
        res = mod.replay(spec["replay"])
    else:
        res = mod.run_batch(spec)
    res["nontrivial"] = sorted(set(res.get("nontrivial", [])))
    res.setdefault("counters", {}).update(probes.snapshot())
    sys.stdout.write("\nRESULT " + json.dumps(res, default=str) + "\n")
    sys.stdout.flush()


if __name__ == "__main__":
    try:
        main()
    except Exception:
        traceback.print_exc()
        sys.exit(3)
