"""Worker process: runs one batch of a check and prints `RESULT <json>` on stdout."""
import json
import sys
import traceback

from vt import common


def main():
    prop = sys.argv[1].upper()
    spec = json.loads(sys.stdin.read())
    import importlib

    mod = importlib.import_module("vt.checks." + prop.lower())
    if "replay" in spec:
        res = mod.replay(spec["replay"])
    else:
        res = mod.run_batch(spec)
    res["nontrivial"] = sorted(set(res.get("nontrivial", [])))
    sys.stdout.write("\nRESULT " + json.dumps(res, default=str) + "\n")
    sys.stdout.flush()


if __name__ == "__main__":
    try:
        main()
    except Exception:
        traceback.print_exc()
        sys.exit(3)
