"""Independent reference table of AVM (TEAL) opcodes and fields, versions 1..8.

Written from the AVM specification (go-algorand data/transactions/logic:
README.md, TEAL_opcodes_v8.md, langspec) and cross-checked against the
independently written `pyteal` package (see selftest()).  Nothing in here is
derived from the analyzer under test.

Conventions
-----------
OPS[name] = {
    "v":      version in which the opcode was introduced (1..8)
    "mode":   "any" | "app" (application mode only) | "sig" (logicsig only)
    "pops":   number of values popped   (None when it depends on immediates)
    "pushes": number of values pushed   (None when it depends on immediates)
    "stack":  tag describing a stack shuffle / immediate dependent effect
              (only present when pops/pushes are None)
    "imm":    list of immediate-argument kinds, in order
    "cost":   int, or {min_program_version: cost} (largest applicable key wins)
    "cost_by_imm": {immediate name: cost}   (ecdsa ops only)
    "cost_note":   text when the real cost also has a dynamic component
    "ctrl":   control-flow class, when not plain fall-through:
              "exit" | "jump" | "cjump" | "mjump" | "call" | "ret"
    "pseudo": True for assembler pseudo-ops (int, byte, addr, method)
    "uncertain": text, when the author was not fully sure about a detail
}
"""

# ---------------------------------------------------------------------------
# helpers used only to build the table compactly
# ---------------------------------------------------------------------------


def _op(v, pops, pushes, imm=(), mode="any", cost=1, **extra):
    d = {
        "v": v,
        "mode": mode,
        "pops": pops,
        "pushes": pushes,
        "imm": list(imm),
        "cost": cost,
    }
    d.update(extra)
    return d


def _shuf(v, tag, imm=(), mode="any", cost=1, **extra):
    d = _op(v, None, None, imm, mode, cost, **extra)
    d["stack"] = tag
    return d


OPS = {}

# ---------------------------------------------------------------------------
# Assembler pseudo-ops.  They assemble to intc*/bytec* (constant-block
# references), so they are usable from version 1 on.
# ---------------------------------------------------------------------------
OPS["int"] = _op(1, 0, 1, ["uint64"], pseudo=True)
# `byte` accepts several spellings: `byte 0x..`, `byte "str"`, `byte base64 X`,
# `byte b64(X)`, `byte base32 X`, `byte b32(X)`  (so 1 or 2 source tokens).
OPS["byte"] = _op(1, 0, 1, ["bytes"], pseudo=True)
OPS["addr"] = _op(1, 0, 1, ["addr"], pseudo=True)
# `method "sig(args)ret"` pushes the 4-byte ARC-4 selector.  It is an assembler
# convenience added to the assembler around the time of v5/v6 but (like
# int/byte/addr) it is not version gated because it emits a bytec reference.
OPS["method"] = _op(
    1, 0, 1, ["method_sig"], pseudo=True,
    uncertain="assembler pseudo-op; believed not version-gated (v1), pyteal floors at 2",
)

# ---------------------------------------------------------------------------
# v1
# ---------------------------------------------------------------------------
OPS["err"] = _op(1, 0, 0, ctrl="exit")  # "Fail immediately."
# spec: "Cost: 7 in v1, 35 since v2"
OPS["sha256"] = _op(1, 1, 1, cost={1: 7, 2: 35})
# spec: "Cost: 26 in v1, 130 since v2"
OPS["keccak256"] = _op(1, 1, 1, cost={1: 26, 2: 130})
# spec: "Cost: 9 in v1, 45 since v2"
OPS["sha512_256"] = _op(1, 1, 1, cost={1: 9, 2: 45})
# spec: "Stack: ..., A: []byte, B: []byte, C: []byte -> ..., bool"; "Cost: 1900"
OPS["ed25519verify"] = _op(1, 3, 1, cost=1900)

for _n in ["+", "-", "/", "*", "<", ">", "<=", ">=", "&&", "||", "==", "!=",
           "%", "|", "&", "^"]:
    OPS[_n] = _op(1, 2, 1)
for _n in ["!", "len", "itob", "btoi", "~"]:
    OPS[_n] = _op(1, 1, 1)
# "A times B as a 128-bit result in two uint64s. X is the high 64 bits, Y is the low"
OPS["mulw"] = _op(1, 2, 2)

OPS["intcblock"] = _op(1, 0, 0, ["uint64*"])
OPS["intc"] = _op(1, 0, 1, ["uint8"])
for _i in range(4):
    OPS["intc_%d" % _i] = _op(1, 0, 1)
OPS["bytecblock"] = _op(1, 0, 0, ["bytes*"])
OPS["bytec"] = _op(1, 0, 1, ["uint8"])
for _i in range(4):
    OPS["bytec_%d" % _i] = _op(1, 0, 1)
# "Mode: Signature"
OPS["arg"] = _op(1, 0, 1, ["uint8"], mode="sig")
for _i in range(4):
    OPS["arg_%d" % _i] = _op(1, 0, 1, mode="sig")
OPS["txn"] = _op(1, 0, 1, ["txn_field"])
OPS["global"] = _op(1, 0, 1, ["global_field"])
OPS["gtxn"] = _op(1, 0, 1, ["uint8", "txn_field"])
OPS["load"] = _op(1, 0, 1, ["uint8"])
OPS["store"] = _op(1, 1, 0, ["uint8"])
OPS["bnz"] = _op(1, 1, 0, ["label"], ctrl="cjump")
OPS["pop"] = _op(1, 1, 0)
OPS["dup"] = _shuf(1, "dup")

# ---------------------------------------------------------------------------
# v2
# ---------------------------------------------------------------------------
# "A plus B out to 128-bit ... X is the carry-bit, Y is the low-order 64 bits."
OPS["addw"] = _op(2, 2, 2)
OPS["txna"] = _op(2, 0, 1, ["txna_field", "uint8"])
OPS["gtxna"] = _op(2, 0, 1, ["uint8", "txna_field", "uint8"])
OPS["bz"] = _op(2, 1, 0, ["label"], ctrl="cjump")
OPS["b"] = _op(2, 0, 0, ["label"], ctrl="jump")
# "use A as success value; end"
OPS["return"] = _op(2, 1, 0, ctrl="exit")
OPS["dup2"] = _shuf(2, "dup2")
OPS["concat"] = _op(2, 2, 1)
OPS["substring"] = _op(2, 1, 1, ["uint8", "uint8"])
OPS["substring3"] = _op(2, 3, 1)
OPS["balance"] = _op(2, 1, 1, mode="app")
OPS["app_opted_in"] = _op(2, 2, 1, mode="app")
OPS["app_local_get"] = _op(2, 2, 1, mode="app")
# "..., A, B: uint64, C: []byte -> ..., X: any, Y: bool"
OPS["app_local_get_ex"] = _op(2, 3, 2, mode="app")
OPS["app_global_get"] = _op(2, 1, 1, mode="app")
# "..., A: uint64, B: []byte -> ..., X: any, Y: bool"
OPS["app_global_get_ex"] = _op(2, 2, 2, mode="app")
OPS["app_local_put"] = _op(2, 3, 0, mode="app")
OPS["app_global_put"] = _op(2, 2, 0, mode="app")
OPS["app_local_del"] = _op(2, 2, 0, mode="app")
OPS["app_global_del"] = _op(2, 1, 0, mode="app")
# "..., A (account), B: uint64 (asset) -> ..., X: any, Y: bool"
OPS["asset_holding_get"] = _op(2, 2, 2, ["asset_holding_field"], mode="app")
# "..., A: uint64 -> ..., X: any, Y: bool"
OPS["asset_params_get"] = _op(2, 1, 2, ["asset_params_field"], mode="app")

# ---------------------------------------------------------------------------
# v3
# ---------------------------------------------------------------------------
OPS["gtxns"] = _op(3, 1, 1, ["txn_field"])
OPS["gtxnsa"] = _op(3, 1, 1, ["txna_field", "uint8"])
OPS["assert"] = _op(3, 1, 0)
OPS["dig"] = _shuf(3, "dig", ["uint8"])
OPS["swap"] = _shuf(3, "swap")
# "selects one of two values based on top-of-stack: B if C != 0, else A"
OPS["select"] = _op(3, 3, 1)
OPS["getbit"] = _op(3, 2, 1)
OPS["setbit"] = _op(3, 3, 1)
OPS["getbyte"] = _op(3, 2, 1)
OPS["setbyte"] = _op(3, 3, 1)
OPS["min_balance"] = _op(3, 1, 1, mode="app")
OPS["pushbytes"] = _op(3, 0, 1, ["bytes"])
OPS["pushint"] = _op(3, 0, 1, ["uint64"])

# ---------------------------------------------------------------------------
# v4
# ---------------------------------------------------------------------------
OPS["shl"] = _op(4, 2, 1)
OPS["shr"] = _op(4, 2, 1)
# spec: "Cost: 4"
OPS["sqrt"] = _op(4, 1, 1, cost=4)
OPS["bitlen"] = _op(4, 1, 1)
OPS["exp"] = _op(4, 2, 1)
# "..., A, B, C, D -> ..., W, X, Y, Z"; spec: "Cost: 20"
OPS["divmodw"] = _op(4, 4, 4, cost=20)
# "A raised to the Bth power as a 128-bit result in two uint64s"; "Cost: 10"
OPS["expw"] = _op(4, 2, 2, cost=10)
# spec: "b+ Cost: 10", "b- Cost: 10"
OPS["b+"] = _op(4, 2, 1, cost=10)
OPS["b-"] = _op(4, 2, 1, cost=10)
# spec: "b/ Cost: 20", "b* Cost: 20", "b% Cost: 20"
OPS["b/"] = _op(4, 2, 1, cost=20)
OPS["b*"] = _op(4, 2, 1, cost=20)
OPS["b%"] = _op(4, 2, 1, cost=20)
for _n in ["b<", "b>", "b<=", "b>=", "b==", "b!="]:
    OPS[_n] = _op(4, 2, 1)
# spec: "b| Cost: 6", "b& Cost: 6", "b^ Cost: 6"
OPS["b|"] = _op(4, 2, 1, cost=6)
OPS["b&"] = _op(4, 2, 1, cost=6)
OPS["b^"] = _op(4, 2, 1, cost=6)
# spec: "b~ Cost: 4"
OPS["b~"] = _op(4, 1, 1, cost=4)
OPS["bzero"] = _op(4, 1, 1)
# "gload t i: Ith scratch space value of the Tth transaction in the current group"
OPS["gload"] = _op(4, 0, 1, ["uint8", "uint8"], mode="app")
OPS["gloads"] = _op(4, 1, 1, ["uint8"], mode="app")
OPS["gaid"] = _op(4, 0, 1, ["uint8"], mode="app")
OPS["gaids"] = _op(4, 1, 1, mode="app")
OPS["callsub"] = _op(4, 0, 0, ["label"], ctrl="call")
OPS["retsub"] = _op(4, 0, 0, ctrl="ret")

# ---------------------------------------------------------------------------
# v5
# ---------------------------------------------------------------------------
# "..., A (data), B (r), C (s), D (pk x), E (pk y) -> ..., bool"
# spec: "Cost: Secp256k1=1700; Secp256r1=2500"
OPS["ecdsa_verify"] = _op(
    5, 5, 1, ["ecdsa_curve"], cost=1700,
    cost_by_imm={"Secp256k1": 1700, "Secp256r1": 2500},
)
# "..., A -> ..., X, Y"; spec: "Cost: Secp256k1=650; Secp256r1=2400"
OPS["ecdsa_pk_decompress"] = _op(
    5, 1, 2, ["ecdsa_curve"], cost=650,
    cost_by_imm={"Secp256k1": 650, "Secp256r1": 2400},
)
# "..., A (data), B (recovery id), C (r), D (s) -> ..., X, Y"; "Cost: 2000"
# (only Secp256k1 is supported by pk_recover)
OPS["ecdsa_pk_recover"] = _op(
    5, 4, 2, ["ecdsa_curve"], cost=2000,
    cost_by_imm={"Secp256k1": 2000, "Secp256r1": 2000},
)
OPS["loads"] = _op(5, 1, 1)
OPS["stores"] = _op(5, 2, 0)
OPS["cover"] = _shuf(5, "cover", ["uint8"])
OPS["uncover"] = _shuf(5, "uncover", ["uint8"])
OPS["extract"] = _op(5, 1, 1, ["uint8", "uint8"])
OPS["extract3"] = _op(5, 3, 1)
OPS["extract_uint16"] = _op(5, 2, 1)
OPS["extract_uint32"] = _op(5, 2, 1)
OPS["extract_uint64"] = _op(5, 2, 1)
OPS["app_params_get"] = _op(5, 1, 2, ["app_params_field"], mode="app")
OPS["log"] = _op(5, 1, 0, mode="app")
OPS["itxn_begin"] = _op(5, 0, 0, mode="app")
OPS["itxn_field"] = _op(5, 1, 0, ["txn_field"], mode="app")
OPS["itxn_submit"] = _op(5, 0, 0, mode="app")
OPS["itxn"] = _op(5, 0, 1, ["txn_field"], mode="app")
OPS["itxna"] = _op(5, 0, 1, ["txna_field", "uint8"], mode="app")
OPS["txnas"] = _op(5, 1, 1, ["txna_field"])
OPS["gtxnas"] = _op(5, 1, 1, ["uint8", "txna_field"])
# "..., A: uint64 (group index), B: uint64 (array index) -> ..., any"
OPS["gtxnsas"] = _op(5, 2, 1, ["txna_field"])
OPS["args"] = _op(5, 1, 1, mode="sig")

# ---------------------------------------------------------------------------
# v6
# ---------------------------------------------------------------------------
# spec: "Cost: 40"
OPS["bsqrt"] = _op(6, 1, 1, cost=40)
# "..., A, B, C -> ..., uint64: A,B / C. Fail if C == 0 or if result overflows."
OPS["divw"] = _op(6, 3, 1)
OPS["itxn_next"] = _op(6, 0, 0, mode="app")
OPS["itxnas"] = _op(6, 1, 1, ["txna_field"], mode="app")
OPS["gitxn"] = _op(6, 0, 1, ["uint8", "txn_field"], mode="app")
OPS["gitxna"] = _op(6, 0, 1, ["uint8", "txna_field", "uint8"], mode="app")
OPS["gitxnas"] = _op(6, 1, 1, ["uint8", "txna_field"], mode="app")
# "..., A: uint64 (txn index), B: uint64 (slot) -> ..., any"
OPS["gloadss"] = _op(6, 2, 1, mode="app")
OPS["acct_params_get"] = _op(6, 1, 2, ["acct_params_field"], mode="app")

# ---------------------------------------------------------------------------
# v7
# ---------------------------------------------------------------------------
# "replace2 s: ..., A: []byte, B: []byte -> ..., []byte"
OPS["replace2"] = _op(7, 2, 1, ["uint8"])
# "..., A: []byte, B: uint64, C: []byte -> ..., []byte"
OPS["replace3"] = _op(7, 3, 1)
# assembler pseudo-op (v7): `replace s` assembles to replace2 s (pops 2), bare `replace` to replace3 (pops 3).
# Added by the harness author (not part of the sub-agent transcription); "optional immediate" kind is `uint8?`.
OPS["replace"] = _shuf(7, "replace", ["uint8?"], pseudo=True)
# spec: "Cost: 1 + 1 per 16 bytes of A"
OPS["base64_decode"] = _op(
    7, 1, 1, ["base64_encoding"], cost=1,
    cost_note="1 + 1 per 16 bytes of A (dynamic part not included)",
)
# spec: "Cost: 25 + 2 per 7 bytes of A"
OPS["json_ref"] = _op(
    7, 2, 1, ["json_ref_type"], cost=25,
    cost_note="25 + 2 per 7 bytes of A (dynamic part not included)",
)
# spec: "Cost: 1900"
OPS["ed25519verify_bare"] = _op(7, 3, 1, cost=1900)
# spec: "Cost: 130"
OPS["sha3_256"] = _op(7, 1, 1, cost=130)
# "..., A: []byte, B: []byte, C: []byte -> ..., X: []byte, Y: bool"; "Cost: 5700"
OPS["vrf_verify"] = _op(7, 3, 2, ["vrf_standard"], cost=5700)
# "..., A: uint64 -> ..., any".  The opcode doc has no "Mode:" line, i.e. it
# is available in both modes (it fails at runtime if the round is unavailable).
OPS["block"] = _op(7, 1, 1, ["block_field"])

# ---------------------------------------------------------------------------
# v8
# ---------------------------------------------------------------------------
# "..., A: []byte, B: uint64 -> ..., bool"
OPS["box_create"] = _op(8, 2, 1, mode="app")
# "..., A: []byte, B: uint64, C: uint64 -> ..., []byte"
OPS["box_extract"] = _op(8, 3, 1, mode="app")
# "..., A: []byte, B: uint64, C: []byte -> ..."
OPS["box_replace"] = _op(8, 3, 0, mode="app")
# "..., A: []byte -> ..., bool"
OPS["box_del"] = _op(8, 1, 1, mode="app")
# "..., A: []byte -> ..., X: uint64, Y: bool"
OPS["box_len"] = _op(8, 1, 2, mode="app")
# "..., A: []byte -> ..., X: []byte, Y: bool"
OPS["box_get"] = _op(8, 1, 2, mode="app")
# "..., A: []byte, B: []byte -> ..."
OPS["box_put"] = _op(8, 2, 0, mode="app")
OPS["popn"] = _shuf(8, "popn", ["uint8"])
OPS["dupn"] = _shuf(8, "dupn", ["uint8"])
# "replace the Nth value from the top of the stack with A. bury 0 fails."
OPS["bury"] = _shuf(8, "bury", ["uint8"])
OPS["frame_dig"] = _shuf(8, "frame_dig", ["int8"])
OPS["frame_bury"] = _shuf(8, "frame_bury", ["int8"])
# "proto a r: Prepare top call frame for a retsub that will assume A args
#  and R return values."
OPS["proto"] = _shuf(8, "proto", ["uint8", "uint8"])
# "switch target ...: branch to the Ath label. Continue at following
#  instruction if index A exceeds the number of labels."
OPS["switch"] = _op(8, 1, 0, ["label*"], ctrl="mjump")
# "match target ...: given match cases from A[1] to A[N], branch to the Ith
#  label where A[I] = B. Continue to the following instruction if no matches
#  are found."
OPS["match"] = _shuf(8, "match", ["label*"], ctrl="mjump")
OPS["pushbytess"] = _shuf(8, "pushbytess", ["bytes*"])
OPS["pushints"] = _shuf(8, "pushints", ["uint64*"])

del _n, _i

# ---------------------------------------------------------------------------
# Field tables
# ---------------------------------------------------------------------------
U, B = "uint64", "bytes"


def _tf(v, typ, array=False, mode="any", itxn_v=0, **extra):
    """txn field.  itxn_v = version from which `itxn_field` may set it
    (0 = never settable).  mode="app" marks "effects" fields (Logs, LastLog,
    Created*ID...) that can only be read in application mode."""
    d = {"v": v, "type": typ, "array": array, "mode": mode, "itxn_v": itxn_v}
    d.update(extra)
    return d


# Order is the spec's index order (index = position).
TXN_FIELDS = {
    "Sender": _tf(1, B, itxn_v=5),
    "Fee": _tf(1, U, itxn_v=5),
    "FirstValid": _tf(1, U),
    # Index 3 has existed since v1 but "Causes program to fail; reserved for
    # future use" until v7, where it became usable (randomness support).
    # Current go-algorand gives it version 7, and so does pyteal.
    "FirstValidTime": _tf(
        7, U,
        uncertain="name assembled in v1..v6 by old assemblers but always failed at runtime; v7 in current spec",
    ),
    "LastValid": _tf(1, U),
    "Note": _tf(1, B, itxn_v=6),
    "Lease": _tf(1, B),
    "Receiver": _tf(1, B, itxn_v=5),
    "Amount": _tf(1, U, itxn_v=5),
    "CloseRemainderTo": _tf(1, B, itxn_v=5),
    "VotePK": _tf(1, B, itxn_v=6),
    "SelectionPK": _tf(1, B, itxn_v=6),
    "VoteFirst": _tf(1, U, itxn_v=6),
    "VoteLast": _tf(1, U, itxn_v=6),
    "VoteKeyDilution": _tf(1, U, itxn_v=6),
    "Type": _tf(1, B, itxn_v=5),
    "TypeEnum": _tf(1, U, itxn_v=5),
    "XferAsset": _tf(1, U, itxn_v=5),
    "AssetAmount": _tf(1, U, itxn_v=5),
    "AssetSender": _tf(1, B, itxn_v=5),
    "AssetReceiver": _tf(1, B, itxn_v=5),
    "AssetCloseTo": _tf(1, B, itxn_v=5),
    "GroupIndex": _tf(1, U),
    "TxID": _tf(1, B),
    "ApplicationID": _tf(2, U, itxn_v=6),
    "OnCompletion": _tf(2, U, itxn_v=6),
    "ApplicationArgs": _tf(2, B, array=True, itxn_v=6),
    "NumAppArgs": _tf(2, U),
    "Accounts": _tf(2, B, array=True, itxn_v=6),
    "NumAccounts": _tf(2, U),
    "ApprovalProgram": _tf(2, B, itxn_v=6),
    "ClearStateProgram": _tf(2, B, itxn_v=6),
    "RekeyTo": _tf(2, B, itxn_v=6),
    "ConfigAsset": _tf(2, U, itxn_v=5),
    "ConfigAssetTotal": _tf(2, U, itxn_v=5),
    "ConfigAssetDecimals": _tf(2, U, itxn_v=5),
    "ConfigAssetDefaultFrozen": _tf(2, U, itxn_v=5),
    "ConfigAssetUnitName": _tf(2, B, itxn_v=5),
    "ConfigAssetName": _tf(2, B, itxn_v=5),
    "ConfigAssetURL": _tf(2, B, itxn_v=5),
    "ConfigAssetMetadataHash": _tf(2, B, itxn_v=5),
    "ConfigAssetManager": _tf(2, B, itxn_v=5),
    "ConfigAssetReserve": _tf(2, B, itxn_v=5),
    "ConfigAssetFreeze": _tf(2, B, itxn_v=5),
    "ConfigAssetClawback": _tf(2, B, itxn_v=5),
    "FreezeAsset": _tf(2, U, itxn_v=5),
    "FreezeAssetAccount": _tf(2, B, itxn_v=5),
    "FreezeAssetFrozen": _tf(2, U, itxn_v=5),
    "Assets": _tf(3, U, array=True, itxn_v=6),
    "NumAssets": _tf(3, U),
    "Applications": _tf(3, U, array=True, itxn_v=6),
    "NumApplications": _tf(3, U),
    "GlobalNumUint": _tf(3, U, itxn_v=6),
    "GlobalNumByteSlice": _tf(3, U, itxn_v=6),
    "LocalNumUint": _tf(3, U, itxn_v=6),
    "LocalNumByteSlice": _tf(3, U, itxn_v=6),
    "ExtraProgramPages": _tf(4, U, itxn_v=6),
    "Nonparticipation": _tf(5, U, itxn_v=6),
    # "effects" fields: "Application mode only"
    "Logs": _tf(5, B, array=True, mode="app"),
    "NumLogs": _tf(5, U, mode="app"),
    "CreatedAssetID": _tf(5, U, mode="app"),
    "CreatedApplicationID": _tf(5, U, mode="app"),
    "LastLog": _tf(6, B, mode="app"),
    "StateProofPK": _tf(6, B, itxn_v=6),
    "ApprovalProgramPages": _tf(7, B, array=True, itxn_v=7),
    "NumApprovalProgramPages": _tf(7, U),
    "ClearStateProgramPages": _tf(7, B, array=True, itxn_v=7),
    "NumClearStateProgramPages": _tf(7, U),
}
# The itxn_v column was not part of the requested contract and is written
# from memory of go-algorand's `itxnSettableVersion`; treat as best effort.
TXN_FIELDS_ITXN_V_UNCERTAIN = True


def _gf(v, typ, mode="any"):
    return {"v": v, "type": typ, "mode": mode}


GLOBAL_FIELDS = {
    "MinTxnFee": _gf(1, U),
    "MinBalance": _gf(1, U),
    "MaxTxnLife": _gf(1, U),
    "ZeroAddress": _gf(1, B),
    "GroupSize": _gf(1, U),
    "LogicSigVersion": _gf(2, U),
    # "Application mode only" from here, except GroupID and OpcodeBudget.
    "Round": _gf(2, U, "app"),
    "LatestTimestamp": _gf(2, U, "app"),
    "CurrentApplicationID": _gf(2, U, "app"),
    "CreatorAddress": _gf(3, B, "app"),
    "CurrentApplicationAddress": _gf(5, B, "app"),
    "GroupID": _gf(5, B),
    "OpcodeBudget": _gf(6, U),
    "CallerApplicationID": _gf(6, U, "app"),
    "CallerApplicationAddress": _gf(6, B, "app"),
}


def _f(v, typ):
    return {"v": v, "type": typ}


ASSET_HOLDING_FIELDS = {
    "AssetBalance": _f(2, U),
    "AssetFrozen": _f(2, U),
}

ASSET_PARAMS_FIELDS = {
    "AssetTotal": _f(2, U),
    "AssetDecimals": _f(2, U),
    "AssetDefaultFrozen": _f(2, U),
    "AssetUnitName": _f(2, B),
    "AssetName": _f(2, B),
    "AssetURL": _f(2, B),
    "AssetMetadataHash": _f(2, B),
    "AssetManager": _f(2, B),
    "AssetReserve": _f(2, B),
    "AssetFreeze": _f(2, B),
    "AssetClawback": _f(2, B),
    "AssetCreator": _f(5, B),
}

APP_PARAMS_FIELDS = {
    "AppApprovalProgram": _f(5, B),
    "AppClearStateProgram": _f(5, B),
    "AppGlobalNumUint": _f(5, U),
    "AppGlobalNumByteSlice": _f(5, U),
    "AppLocalNumUint": _f(5, U),
    "AppLocalNumByteSlice": _f(5, U),
    "AppExtraProgramPages": _f(5, U),
    "AppCreator": _f(5, B),
    "AppAddress": _f(5, B),
}

ACCT_PARAMS_FIELDS = {
    "AcctBalance": _f(6, U),
    "AcctMinBalance": _f(6, U),
    "AcctAuthAddr": _f(6, B),
    "AcctTotalNumUint": _f(8, U),
    "AcctTotalNumByteSlice": _f(8, U),
    "AcctTotalExtraAppPages": _f(8, U),
    "AcctTotalAppsCreated": _f(8, U),
    "AcctTotalAppsOptedIn": _f(8, U),
    "AcctTotalAssetsCreated": _f(8, U),
    "AcctTotalAssets": _f(8, U),
    "AcctTotalBoxes": _f(8, U),
    "AcctTotalBoxBytes": _f(8, U),
}

ECDSA_CURVES = {
    "Secp256k1": {"v": 5},
    "Secp256r1": {"v": 7},
}

BASE64_ENCODINGS = {
    "URLEncoding": {"v": 7},
    "StdEncoding": {"v": 7},
}

JSON_REF_TYPES = {
    "JSONString": _f(7, B),
    "JSONUint64": _f(7, U),
    "JSONObject": _f(7, B),
}

# TEAL_opcodes_v8.md lists a single standard, `VrfAlgorand` (index 0).
# pyteal additionally names `VrfChainlink` (index 1); that value existed in a
# pre-release of AVM 7 and was removed before v7 shipped, so go-algorand's
# assembler rejects it.  Deliberate disagreement with pyteal.
VRF_STANDARDS = {
    "VrfAlgorand": {"v": 7},
}
VRF_STANDARDS_UNCERTAIN = {
    "VrfChainlink": "named by pyteal; believed removed from go-algorand before AVM 7 release",
}

BLOCK_FIELDS = {
    "BlkSeed": _f(7, B),
    "BlkTimestamp": _f(7, U),
}

# Named integer constants accepted by `int` / `pushint`.
TYPE_ENUM_NAMES = {
    "unknown": 0,
    "pay": 1,
    "keyreg": 2,
    "acfg": 3,
    "axfer": 4,
    "afrz": 5,
    "appl": 6,
}

ON_COMPLETE_NAMES = {
    "NoOp": 0,
    "OptIn": 1,
    "CloseOut": 2,
    "ClearState": 3,
    "UpdateApplication": 4,
    "DeleteApplication": 5,
}

NAMED_INT_CONSTANTS = {}
NAMED_INT_CONSTANTS.update(TYPE_ENUM_NAMES)
NAMED_INT_CONSTANTS.update(ON_COMPLETE_NAMES)

# immediate kind -> table of legal names
FIELD_TABLES = {
    "txn_field": TXN_FIELDS,
    "txna_field": TXN_FIELDS,
    "global_field": GLOBAL_FIELDS,
    "asset_holding_field": ASSET_HOLDING_FIELDS,
    "asset_params_field": ASSET_PARAMS_FIELDS,
    "app_params_field": APP_PARAMS_FIELDS,
    "acct_params_field": ACCT_PARAMS_FIELDS,
    "ecdsa_curve": ECDSA_CURVES,
    "base64_encoding": BASE64_ENCODINGS,
    "json_ref_type": JSON_REF_TYPES,
    "vrf_standard": VRF_STANDARDS,
    "block_field": BLOCK_FIELDS,
}

MAX_VERSION = 8

# ---------------------------------------------------------------------------
# Queries
# ---------------------------------------------------------------------------


def _as_int(x):
    if isinstance(x, int):
        return x
    s = str(x).strip()
    try:
        return int(s, 0)
    except ValueError:
        # go's ParseUint(s, 0, ..) reads a bare leading 0 as octal ("010" == 8)
        return int(s, 8)


def cost_of(op, program_version, imms=()):
    """Static cost of `op` in a program whose `#pragma version` is
    `program_version`.  `imms` are the immediates as written in the source
    (only consulted for the ecdsa_* opcodes).  Dynamic cost components
    (base64_decode, json_ref) are not included; see "cost_note"."""
    e = OPS[op]
    by_imm = e.get("cost_by_imm")
    if by_imm is not None and imms:
        name = imms[0]
        if isinstance(name, int) or str(name).isdigit():
            # numeric form of the curve: index in ECDSA_CURVES order
            name = list(ECDSA_CURVES)[int(name)]
        if name in by_imm:
            return by_imm[name]
    c = e["cost"]
    if isinstance(c, dict):
        best = None
        for k in sorted(c):
            if program_version >= k:
                best = c[k]
        if best is None:
            best = c[min(c)]
        return best
    return c


def stack_effect(op, imms=()):
    """(pops, pushes) of `op`.

    For shuffles the pair describes how many values are read from the top of
    the stack and how many are left in their place:
      dup (1,2)  dup2 (2,4)  swap (2,2)  dig n (n+1,n+2)  cover n (n+1,n+1)
      uncover n (n+1,n+1)  bury n (n+1,n)  popn n (n,0)  dupn n (1,n+1)
      pushints/pushbytess with k values (0,k)  match with k labels (k+1,0)
      proto (0,0)  frame_dig (0,1)  frame_bury (1,0)
    """
    e = OPS[op]
    if e["pops"] is not None:
        return (e["pops"], e["pushes"])
    tag = e["stack"]
    if tag == "replace":
        return (2, 1) if len(imms) >= 1 else (3, 1)
    if tag == "dup":
        return (1, 2)
    if tag == "dup2":
        return (2, 4)
    if tag == "swap":
        return (2, 2)
    if tag == "select":
        return (3, 1)
    if tag == "proto":
        return (0, 0)
    if tag == "frame_dig":
        return (0, 1)
    if tag == "frame_bury":
        return (1, 0)
    if tag in ("pushints", "pushbytess"):
        return (0, len(imms))
    if tag == "match":
        return (len(imms) + 1, 0)
    if tag == "switch":
        return (1, 0)
    if tag in ("callsub", "retsub"):
        return (0, 0)
    n = _as_int(imms[0])
    if tag == "dig":
        return (n + 1, n + 2)
    if tag in ("cover", "uncover"):
        return (n + 1, n + 1)
    if tag == "bury":
        # A is popped, then the value that is now n-1 below the new top
        # (i.e. n below A) is overwritten: n+1 values in, n values out.
        return (n + 1, n)
    if tag == "popn":
        return (n, 0)
    if tag == "dupn":
        return (1, n + 1)
    raise KeyError("unknown stack tag %r" % (tag,))


def ops_in_version(version, mode=None):
    """Names of opcodes legal in a program of `version` (optionally also
    restricted to those legal in run mode "app"/"sig")."""
    out = []
    for n, e in OPS.items():
        if e["v"] > version:
            continue
        if mode is not None and e["mode"] not in ("any", mode):
            continue
        out.append(n)
    return out


def uncertain_entries():
    out = []
    for n, e in OPS.items():
        if "uncertain" in e:
            out.append(("OPS", n, e["uncertain"]))
    for tn, t in FIELD_TABLES.items():
        if tn == "txna_field":
            continue
        for n, e in t.items():
            if "uncertain" in e:
                out.append((tn, n, e["uncertain"]))
    for n, why in VRF_STANDARDS_UNCERTAIN.items():
        out.append(("vrf_standard", n, why))
    return out


# ---------------------------------------------------------------------------
# Self test: internal consistency + cross-check against pyteal
# ---------------------------------------------------------------------------

# Places where this table deliberately differs from pyteal 0.27.
#  * every v1 entry: pyteal does not support TEAL v1 and floors min_version
#    at 2, so "ours 1 / pyteal 2" is not a disagreement.
#  * pyteal names from AVM 9+ (mimc, box_splice, ec_*, voter_params_get, ...)
#    are outside v1..v8 and intentionally absent here.
#  * VrfChainlink: see VRF_STANDARDS.
_PYTEAL_IGNORED_OPS = {"//"}  # pyteal's comment pseudo-op


def _internal_checks(problems):
    kinds = {
        "uint8", "int8", "uint64", "bytes", "bytes*", "uint64*", "label",
        "label*", "txn_field", "txna_field", "global_field",
        "asset_holding_field", "asset_params_field", "app_params_field",
        "acct_params_field", "ecdsa_curve", "base64_encoding", "json_ref_type",
        "vrf_standard", "block_field", "addr", "method_sig", "uint8?",
    }
    tags = {"dup", "dup2", "swap", "dig", "cover", "uncover", "bury", "popn",
            "dupn", "pushints", "pushbytess", "match", "proto", "frame_dig",
            "frame_bury", "replace"}
    for n, e in OPS.items():
        if not (1 <= e["v"] <= MAX_VERSION):
            problems.append("OPS[%s]: bad version" % n)
        if e["mode"] not in ("any", "app", "sig"):
            problems.append("OPS[%s]: bad mode" % n)
        for k in e["imm"]:
            if k not in kinds:
                problems.append("OPS[%s]: bad imm kind %s" % (n, k))
        if (e["pops"] is None) != (e["pushes"] is None):
            problems.append("OPS[%s]: pops/pushes mismatch" % n)
        if e["pops"] is None:
            if e.get("stack") not in tags:
                problems.append("OPS[%s]: missing/unknown stack tag" % n)
        elif "stack" in e:
            problems.append("OPS[%s]: stack tag on plain op" % n)
        c = e["cost"]
        if isinstance(c, dict):
            if 1 not in c and e["v"] not in c:
                problems.append("OPS[%s]: cost dict lacks base key" % n)
        elif not isinstance(c, int):
            problems.append("OPS[%s]: bad cost" % n)
    for tn, t in FIELD_TABLES.items():
        for n, e in t.items():
            if not (1 <= e["v"] <= MAX_VERSION):
                problems.append("%s[%s]: bad version" % (tn, n))
            if "type" in e and e["type"] not in (U, B):
                problems.append("%s[%s]: bad type" % (tn, n))
    # a few spot checks of the documented conventions
    expect = [
        (("dup", ()), (1, 2)), (("dup2", ()), (2, 4)), (("swap", ()), (2, 2)),
        (("dig", (0,)), (1, 2)), (("dig", ("3",)), (4, 5)),
        (("cover", (2,)), (3, 3)), (("uncover", (2,)), (3, 3)),
        (("bury", (1,)), (2, 1)), (("popn", (3,)), (3, 0)),
        (("dupn", (2,)), (1, 3)), (("pushints", (1, 2, 3)), (0, 3)),
        (("pushbytess", ("0x01", "0x02")), (0, 2)),
        (("match", ("a", "b")), (3, 0)), (("switch", ("a", "b")), (1, 0)),
        (("proto", (2, 1)), (0, 0)), (("frame_dig", (-1,)), (0, 1)),
        (("frame_bury", (0,)), (1, 0)), (("select", ()), (3, 1)),
        (("callsub", ("l",)), (0, 0)), (("retsub", ()), (0, 0)),
    ]
    for (op, imms), want in expect:
        got = stack_effect(op, imms)
        if got != want:
            problems.append("stack_effect(%s,%r) = %r, want %r" % (op, imms, got, want))
    cexp = [
        (("sha256", 1, ()), 7), (("sha256", 2, ()), 35), (("sha256", 8, ()), 35),
        (("keccak256", 1, ()), 26), (("keccak256", 5, ()), 130),
        (("sha512_256", 1, ()), 9), (("sha512_256", 3, ()), 45),
        (("ed25519verify", 1, ()), 1900),
        (("ecdsa_verify", 5, ("Secp256k1",)), 1700),
        (("ecdsa_verify", 7, ("Secp256r1",)), 2500),
        (("ecdsa_pk_decompress", 7, ("Secp256r1",)), 2400),
        (("ecdsa_pk_decompress", 5, ("Secp256k1",)), 650),
        (("ecdsa_pk_recover", 5, ("Secp256k1",)), 2000),
        (("b+", 4, ()), 10), (("b/", 4, ()), 20), (("b|", 4, ()), 6),
        (("b~", 4, ()), 4), (("bsqrt", 6, ()), 40), (("sqrt", 4, ()), 4),
        (("expw", 4, ()), 10), (("divmodw", 4, ()), 20),
        (("sha3_256", 7, ()), 130), (("vrf_verify", 7, ("VrfAlgorand",)), 5700),
        (("ed25519verify_bare", 7, ()), 1900), (("json_ref", 7, ("JSONString",)), 25),
        (("base64_decode", 7, ("StdEncoding",)), 1), (("+", 1, ()), 1),
    ]
    for (op, ver, imms), want in cexp:
        got = cost_of(op, ver, imms)
        if got != want:
            problems.append("cost_of(%s,%d,%r) = %r, want %r" % (op, ver, imms, got, want))


def _same_version(ours, theirs):
    # pyteal floors min_version at 2 (it cannot emit v1 programs)
    return ours == theirs or (ours == 1 and theirs == 2)


def selftest(verbose=True):
    problems = []
    notes = []
    _internal_checks(problems)

    try:
        from pyteal.ir.ops import Op, Mode
        from pyteal.ast.txn import TxnField
        from pyteal.ast.global_ import GlobalField
    except Exception as exc:  # pragma: no cover
        problems.append("cannot import pyteal: %r" % (exc,))
        Op = None

    if Op is not None:
        both = Mode.Signature | Mode.Application
        seen = set()
        for o in Op:
            name = o.value.value if hasattr(o.value, "value") else str(o)
            if name in _PYTEAL_IGNORED_OPS:
                continue
            seen.add(name)
            if o.min_version > MAX_VERSION:
                if name in OPS:
                    problems.append("op %s: pyteal says v%d (>8) but present here" % (name, o.min_version))
                continue
            if name not in OPS:
                problems.append("op %s (pyteal v%d) missing from OPS" % (name, o.min_version))
                continue
            e = OPS[name]
            if not _same_version(e["v"], o.min_version):
                problems.append("op %s: version ours %d pyteal %d" % (name, e["v"], o.min_version))
            pm = "any" if o.mode == both else ("app" if o.mode == Mode.Application else "sig")
            if pm != e["mode"]:
                problems.append("op %s: mode ours %s pyteal %s" % (name, e["mode"], pm))
        extra = sorted(set(OPS) - seen)
        if extra:
            notes.append("ops not modelled by pyteal's Op enum (not checked): " + " ".join(extra))

        for f in TxnField:
            if f.min_version > MAX_VERSION:
                if f.arg_name in TXN_FIELDS:
                    problems.append("txn field %s: pyteal >8 but present" % f.arg_name)
                continue
            e = TXN_FIELDS.get(f.arg_name)
            if e is None:
                problems.append("txn field %s missing" % f.arg_name)
                continue
            if not _same_version(e["v"], f.min_version):
                problems.append("txn field %s: version ours %d pyteal %d" % (f.arg_name, e["v"], f.min_version))
            if bool(e["array"]) != bool(f.is_array):
                problems.append("txn field %s: array ours %r pyteal %r" % (f.arg_name, e["array"], f.is_array))
            if e["type"] != f.type_of().name:
                problems.append("txn field %s: type ours %s pyteal %s" % (f.arg_name, e["type"], f.type_of().name))
        pt = set(f.arg_name for f in TxnField if f.min_version <= MAX_VERSION)
        for n in TXN_FIELDS:
            if n not in pt:
                problems.append("txn field %s not known to pyteal" % n)
        # index order
        for f in TxnField:
            if f.arg_name in TXN_FIELDS and f.arg_name != "NumAccounts":
                # pyteal 0.27 has a typo giving NumAccounts id 2 instead of 29
                if list(TXN_FIELDS).index(f.arg_name) != f.id:
                    problems.append("txn field %s: index ours %d pyteal %d" % (
                        f.arg_name, list(TXN_FIELDS).index(f.arg_name), f.id))

        for f in GlobalField:
            if f.min_version > MAX_VERSION:
                if f.arg_name in GLOBAL_FIELDS:
                    problems.append("global field %s: pyteal >8 but present" % f.arg_name)
                continue
            e = GLOBAL_FIELDS.get(f.arg_name)
            if e is None:
                problems.append("global field %s missing" % f.arg_name)
                continue
            if not _same_version(e["v"], f.min_version):
                problems.append("global field %s: version ours %d pyteal %d" % (f.arg_name, e["v"], f.min_version))
            if e["type"] != f.type_of().name:
                problems.append("global field %s: type ours %s pyteal %s" % (f.arg_name, e["type"], f.type_of().name))
            if list(GLOBAL_FIELDS).index(f.arg_name) != f.id:
                problems.append("global field %s: index mismatch" % f.arg_name)
        pg = set(f.arg_name for f in GlobalField if f.min_version <= MAX_VERSION)
        for n in GLOBAL_FIELDS:
            if n not in pg:
                problems.append("global field %s not known to pyteal" % n)

        _check_small_enums(problems, notes)

    if verbose:
        for n in notes:
            print("note:", n)
        for p in problems:
            print("DISAGREEMENT:", p)
        print("opcodes: %d (incl. %d pseudo-ops)" % (
            len(OPS), sum(1 for e in OPS.values() if e.get("pseudo"))))
        for u in uncertain_entries():
            print("uncertain:", u)
    return not problems


def _check_small_enums(problems, notes):
    """Cross-check the small enumerations against pyteal where it has them."""
    def cmp(label, ours, theirs, deliberate=()):
        # theirs: name -> (min_version, type-or-None)
        for n, (v, t) in theirs.items():
            if v > MAX_VERSION:
                if n in ours:
                    problems.append("%s %s: pyteal >8 but present" % (label, n))
                continue
            if n in deliberate:
                notes.append("%s %s: deliberate disagreement with pyteal (absent here)" % (label, n))
                continue
            if n not in ours:
                problems.append("%s %s missing" % (label, n))
                continue
            if ours[n]["v"] != v:
                problems.append("%s %s: version ours %d pyteal %d" % (label, n, ours[n]["v"], v))
            if t is not None and ours[n].get("type") != t:
                problems.append("%s %s: type ours %s pyteal %s" % (label, n, ours[n].get("type"), t))
        for n in ours:
            if n not in theirs:
                problems.append("%s %s not known to pyteal" % (label, n))

    from pyteal.ast.acct import AccountParamField
    cmp("acct_params", ACCT_PARAMS_FIELDS,
        {f.arg_name: (f.min_version, f.type_of().name) for f in AccountParamField})
    from pyteal.ast.ecdsa import EcdsaCurve
    cmp("ecdsa_curve", ECDSA_CURVES, {c.arg_name: (c.min_version, None) for c in EcdsaCurve})
    from pyteal.ast.base64decode import Base64Encoding
    cmp("base64", BASE64_ENCODINGS, {c.arg_name: (c.min_version, None) for c in Base64Encoding})
    from pyteal.ast.jsonref import JsonRefType
    cmp("json_ref", JSON_REF_TYPES, {c.arg_name: (c.min_version, c.ret_type.name) for c in JsonRefType})
    from pyteal.ast.vrfverify import VrfVerifyStandard
    cmp("vrf", VRF_STANDARDS, {c.arg_name: (c.min_version, None) for c in VrfVerifyStandard},
        deliberate=("VrfChainlink",))
    from pyteal.ast.block import BlockField
    cmp("block", BLOCK_FIELDS, {c.arg_name: (c.min_version, c.ret_type.name if hasattr(c, "ret_type") else None) for c in BlockField})

    # asset / app params: pyteal only has them as string literals in source
    import inspect
    import re
    from pyteal.ast import asset as _asset, app as _app
    src = inspect.getsource(_asset)
    names = set(re.findall(r'immediate_args=\["(\w+)"\]', src))
    want = set(ASSET_HOLDING_FIELDS) | set(ASSET_PARAMS_FIELDS)
    if names != want:
        problems.append("asset fields: ours-only %s pyteal-only %s" % (sorted(want - names), sorted(names - want)))
    src = inspect.getsource(_app)
    names = set(n for n in re.findall(r'immediate_args=\["(\w+)"\]', src) if n.startswith("App"))
    if names != set(APP_PARAMS_FIELDS):
        problems.append("app params: ours-only %s pyteal-only %s" % (
            sorted(set(APP_PARAMS_FIELDS) - names), sorted(names - set(APP_PARAMS_FIELDS))))
    oc = dict((k, v) for k, v in ON_COMPLETE_NAMES.items())
    for n in oc:
        if not hasattr(_app.OnComplete, n):
            problems.append("OnComplete %s not known to pyteal" % n)


if __name__ == "__main__":
    import sys
    sys.exit(0 if selftest() else 1)
