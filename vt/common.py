"""Shared plumbing: locating the tealer tree under test, seeds, evidence and replay files.

Everything here is harness-side; nothing imports tealer at module import time
except through `import_tealer()`, which puts VT_REPO (default /repo) first on
sys.path and checks that the imported package really comes from there.
"""
import hashlib
import json
import os
import random
import sys
import time

VERIF_ROOT = os.path.dirname(os.path.dirname(os.path.abspath(__file__)))
REPO = os.environ.get("VT_REPO", "/repo")
PY = "/venv/bin/python" if os.path.exists("/venv/bin/python") else sys.executable
if os.path.realpath(REPO) == "/repo":
    EVIDENCE_DIR = os.path.join(VERIF_ROOT, "evidence")
    REPLAY_DIR = os.path.join(VERIF_ROOT, "replay")
else:
    # runs against another tree (seeded / mutant validation) must not overwrite the evidence of /repo
    import tempfile as _tf
    _alt = os.path.join(_tf.gettempdir(), "vt_alt_" + hashlib.sha1(os.path.realpath(REPO).encode()).hexdigest()[:8])
    EVIDENCE_DIR = os.path.join(_alt, "evidence")
    REPLAY_DIR = os.path.join(_alt, "replay")
GUARD = "TEALER_VERIF"

_tealer_loaded = False
OUT_DIR = None


def dot_malformed(text):
    """None if `text` has the outer shape of a DOT digraph (header, balanced braces outside quoted strings and HTML-like
    labels, nothing after the closing brace), else a short description."""
    t = text.strip()
    if not (t.startswith("digraph") or t.startswith("strict digraph")):
        return "does not start with `digraph`"
    depth = 0       # braces
    angle = 0       # inside <...> of an HTML-like label
    quote = False
    closed_at = None
    i = 0
    while i < len(t):
        c = t[i]
        if quote:
            if c == "\\":
                i += 2
                continue
            if c == '"':
                quote = False
        elif angle:
            if c == "<":
                angle += 1
            elif c == ">":
                angle -= 1
        elif c == '"':
            quote = True
        elif c == "<":
            angle = 1
        elif c == "{":
            if closed_at is not None:
                return "text after the closing brace"
            depth += 1
        elif c == "}":
            depth -= 1
            if depth < 0:
                return "unbalanced closing brace"
            if depth == 0:
                closed_at = i
        elif closed_at is not None and not c.isspace():
            return "text after the closing brace"
        i += 1
    if quote or angle:
        return "unterminated string or HTML label"
    if closed_at is None or depth != 0:
        return "missing closing brace"
    return None


def release_tealer_caches():
    """tealer memoises per-block stack ASTs in unbounded lru_caches keyed by block objects, which keeps every contract a
    worker has analysed alive (1-2 GB per worker in the thorough tiers).  Called BETWEEN cases only - never between a
    perturbation and the observation it is compared with - so no history channel that C14 watches is cut."""
    import functools
    import gc
    m = sys.modules.get("tealer.analyses.utils.stack_ast_builder")
    if m is not None:
        for v in vars(m).values():
            if isinstance(v, functools._lru_cache_wrapper):
                v.cache_clear()
    gc.collect()


def import_tealer():
    """Import tealer from the tree under test, with its DEBUG logging silenced."""
    global _tealer_loaded
    if _tealer_loaded:
        return
    import logging
    import tempfile
    import atexit
    import shutil

    logging.disable(logging.CRITICAL)
    global OUT_DIR
    OUT_DIR = tempfile.mkdtemp(prefix="vt_out_")
    os.environ["TEALER_ROOT_OUTPUT_DIR"] = OUT_DIR
    atexit.register(shutil.rmtree, OUT_DIR, True)
    if REPO not in sys.path[:1]:
        sys.path.insert(0, REPO)
    import tealer  # noqa

    where = os.path.realpath(os.path.dirname(tealer.__file__))
    want = os.path.realpath(os.path.join(REPO, "tealer"))
    if where != want:
        raise RuntimeError(f"tealer imported from {where}, expected {want}")
    sys.setrecursionlimit(20000)
    _tealer_loaded = True


def seed_int():
    try:
        return int(os.environ.get("VERIF_SEED", "0"))
    except ValueError:
        return 0


def rng_for(prop, batch, seed=None):
    s = seed_int() if seed is None else seed
    return random.Random(f"{s}:{prop}:{batch}")


def h(obj):
    """Stable short hash of a JSON-able object."""
    return hashlib.sha1(json.dumps(obj, sort_keys=True, default=str).encode()).hexdigest()[:16]


def write_replay(prop, case):
    d = os.path.join(REPLAY_DIR, prop)
    os.makedirs(d, exist_ok=True)
    path = os.path.join(d, h(case) + ".json")
    with open(path, "w", encoding="utf-8") as f:
        json.dump({"property": prop, "case": case}, f, indent=1, default=str)
    return path


def write_evidence(prop, tier, seed, coverage, wall_s, violations, assumptions, level="exploration"):
    os.makedirs(EVIDENCE_DIR, exist_ok=True)
    ev = {
        "property_id": prop,
        "tier": tier,
        "seed": seed,
        "level": level,
        "coverage": coverage,
        "assumptions": assumptions,
        "wall_s": round(wall_s, 2),
        "violations": violations,
    }
    path = os.path.join(EVIDENCE_DIR, prop + ".json")
    tmp = path + ".tmp"
    with open(tmp, "w", encoding="utf-8") as f:
        json.dump(ev, f, indent=1, default=str)
    os.replace(tmp, path)
    return path


class Timer:
    def __init__(self):
        self.t0 = time.time()

    def s(self):
        return time.time() - self.t0
