"""MANIFEST.setup_cmd: offline set-up and self-tests of the trusted base."""
import sys

from vt import run
from vt.ref import avm


def main():
    run.ensure_deps()
    assert avm._selftest()
    from vt.ref import walks
    from vt.spec import avm_table
    assert walks._selftest()
    assert avm_table.selftest(verbose=False), "AVM table self-test (incl. pyteal cross-check) failed"
    from vt import common
    common.import_tealer()
    print("vt setup ok; tealer from", common.REPO)
    return 0


if __name__ == "__main__":
    sys.exit(main())
