"""C12 - a function cut out by a dispatch path has exactly that path's executions.

Monitor: construct_function(teal, path) for every root-to-block prefix of the main graph (bounded length):
  * path [B0]: isomorphism with the contract's main graph (ids, instruction text, lines, edges), subroutine objects shared
  * longer paths: every departure from the path before its last block leads to a single-instruction error block
  * contexts: the soundness monitors of C06-C09 restricted to concrete executions whose main-level block sequence
    starts with the path
  * independence: the same function built alone, after other functions, in another order gives the same contexts
  * the contract's own graph (deep dump incl. prev/next of subroutine blocks) is unchanged by building functions
"""
import random

from vt import common, classify
from vt.checks import frag, ctxlib
from vt.gen import fragment, inputs, teal as T
from vt.mon import observe
from vt.ref import avm

PROP = "C12"
ASSUMPTIONS = [
    "reference interpreter vt/ref/avm.py; executed instructions mapped to blocks by source line",
    "dispatch paths are enumerated over Teal.main block successor lists (bounded length and count)",
]
DECIDING_COUNTERS = ["functions_built", "isomorphism_checks", "offpath_successors_checked", "restricted_block_visits", "independence_comparisons"]
BATCH_TIMEOUT = {"quick": 900, "thorough": 3000}


class Ctr(dict):
    def __missing__(self, k):
        return 0


def plan(tier, seed, scale=1.0):
    nb = 32
    per = max(2, int((10 if tier == "quick" else 120) * scale))
    return [{"batch": b, "n": per, "seed": seed, "tier": tier} for b in range(nb)]


def graph_dump(teal):
    out = []
    for b in teal.bbs:
        out.append((b.idx, [(i.line, str(i)) for i in b.instructions], [n.idx for n in b.next], [p.idx for p in b.prev],
                    b.subroutine.name, id(b)))
    subs = {n: ([b.idx for b in s.blocks], [b.idx for b in s.caller_blocks], [b.idx for b in s.return_point_blocks]) for n, s in teal.subroutines.items()}
    return out, subs, [b.idx for b in teal.main.blocks]


def dispatch_paths(teal, rng, max_len=5, max_paths=10):
    main = set(id(b) for b in teal.main.blocks)
    entry = teal.bbs[0]
    paths = [[entry]]
    frontier = [[entry]]
    while frontier:
        nxt = []
        for p in frontier:
            if len(p) >= max_len:
                continue
            for s in p[-1].next:
                if id(s) in main and s not in p:
                    q = p + [s]
                    paths.append(q)
                    nxt.append(q)
        frontier = nxt
        if len(paths) > 200:
            break
    rest = paths[1:]
    rng.shuffle(rest)
    return [paths[0]] + rest[:max_paths - 1]


def fn_ctx_dump(fn):
    return {str(b.idx): observe.full_ctx_dump(fn.transaction_context(b)) for b in fn.blocks}


def main_sequence(prog, trace, line_block):
    """Main-level (call depth 0) sequence of block ids entered by the execution; starts with the entry block
    (which holds the #pragma line, not an executed instruction)."""
    entry = line_block.get(1)
    seq = [entry.idx] if entry is not None else []
    depth = 0
    for pc in trace:
        b = line_block.get(pc + 2)
        if b is not None and depth == 0 and pc + 2 == b.entry_instr.line:
            seq.append(b.idx)
        op = prog[pc][0]
        if op == "callsub":
            depth += 1
        elif op == "retsub":
            depth -= 1
    return seq


def soundness(fn, blocks_by_idx_line, e_group, e_own, visited_lines, ctr):
    """Context soundness of function fn for one accepting execution (returns list of (kind, ckey, what))."""
    out = []
    t = e_group[e_own]
    s, j = len(e_group), e_own
    for ln in visited_lines:
        b = blocks_by_idx_line.get(ln)
        if b is None:
            out.append(("executed-block-not-in-function", "structure", "execution within the dispatch path visits the block at line %d which the function lacks" % ln))
            continue
        ctr["restricted_block_visits"] += 1
        ctx = fn.transaction_context(b)
        if s not in ctx.group_sizes:
            out.append(("size-missing", "size", "size %d not in group_sizes %s of block %d" % (s, sorted(ctx.group_sizes), b.idx)))
        if j not in ctx.group_indices:
            out.append(("index-missing", "index", "index %d not in group_indices %s of block %d" % (j, sorted(ctx.group_indices), b.idx)))
        for lab in ctxlib.missing_types(ctx, t):
            out.append(("kind-missing", lab, "kind %s not in transaction_types of block %d" % (lab, b.idx)))
        for field, atom, info in ctxlib.missing_addrs(ctx, t):
            out.append(("address-not-admitted", field + (":FEESINK" if atom == "FEESINK" else ""), "%s=%s not admitted by block %d: %s" % (field, atom, b.idx, info)))
        x = ctxlib.fee_excess(ctx, t)
        if x:
            out.append(("fee-above-bound", "fee", "Fee %s above max_fee %s of block %d" % (x[0], x[1], b.idx)))
    return out


def build_fn(src, path_ids):
    from tealer.teal.parse_functions import construct_function
    teal, _o, _e = observe.parse_only(src, "c12")
    with observe.Quiet():
        fn = construct_function(teal, ["B%d" % i for i in path_ids], "f")
    return teal, fn


def exec_visits(prog, group, own):
    r = avm.run(prog, group, own)
    return r


def check_program(prog, version, rng, ctr, tier):
    from tealer.teal.parse_functions import construct_function
    from tealer.teal.instructions.instructions import TealerCustomErrInstruction
    viols = []
    nontrivial = []
    src, _ = T.render(prog, version)
    teal, _o, _e = observe.parse_only(src, "c12")
    g0 = graph_dump(teal)
    paths = dispatch_paths(teal, rng, max_paths=8 if tier == "quick" else 12)
    line_block = {}
    for b in teal.bbs:
        for i in b.instructions:
            line_block[i.line] = b
    # accepting executions (once per program)
    execs = []
    for group, own, _exh in inputs.enumerate_groups(prog, rng, cap=500):
        r = avm.run(prog, group, own)
        if r["ok"]:
            seq = main_sequence(prog, r["trace"], line_block)
            visited = sorted(set(line_block[pc + 2].entry_instr.line for pc in r["trace"] if pc + 2 in line_block))
            execs.append((group, own, seq, visited, r["trace"]))
    built = {}
    orig_by_idx = {b.idx: b for b in teal.bbs}
    for P in paths:
        ids = [b.idx for b in P]
        try:
            with observe.Quiet():
                fn = construct_function(teal, ["B%d" % i for i in ids], "f_" + "_".join(map(str, ids)))
        except Exception as e:
            viols.append({"kind": "construct-function-raised", "key": len(ids), "ckey": None,
                          "what": "construct_function(%s) raised %s: %s" % (ids, type(e).__name__, e)})
            continue
        ctr["functions_built"] += 1
        built[tuple(ids)] = fn_ctx_dump(fn)
        fb = {b.idx: b for b in fn.blocks}
        if len(ids) >= 2:
            nontrivial.append(common.h([src, ids]))
        # shared subroutines
        for nm, sub in fn.subroutines.items():
            if teal.subroutines.get(nm) is not sub:
                viols.append({"kind": "subroutine-not-shared", "key": nm, "what": "function's subroutine %s is not the contract's object" % nm})
        if len(ids) == 1:
            ctr["isomorphism_checks"] += 1
            want = sorted((b.idx, tuple((i.line, str(i)) for i in b.instructions), tuple(n.idx for n in b.next)) for b in teal.main.blocks)
            got = sorted((b.idx, tuple((i.line, str(i)) for i in b.instructions), tuple(n.idx for n in b.next)) for b in fn.main.blocks)
            if want != got:
                viols.append({"kind": "main-graph-not-isomorphic", "key": 1,
                              "what": "function for [B0]: main blocks %s, contract main blocks %s" % (str(got)[:200], str(want)[:200])})
            for b in fn.main.blocks:
                if b is orig_by_idx.get(b.idx):
                    viols.append({"kind": "main-block-shared", "key": b.idx, "what": "function main block %d is the contract's own object" % b.idx})
        else:
            for i, bid in enumerate(ids[:-1]):
                fbk = fb.get(bid)
                ob = orig_by_idx[bid]
                if fbk is None:
                    viols.append({"kind": "path-block-missing", "key": bid, "what": "path block %d not in function %s" % (bid, ids)})
                    continue
                if len(fbk.next) != len(ob.next):
                    viols.append({"kind": "offpath-successors", "key": bid, "what": "path %s: block %d has %d successors, original %d" % (ids, bid, len(fbk.next), len(ob.next))})
                    continue
                for s_new, s_old in zip(fbk.next, ob.next):
                    ctr["offpath_successors_checked"] += 1
                    if s_old.idx == ids[i + 1]:
                        if s_new.idx != s_old.idx or isinstance(s_new.instructions[0], TealerCustomErrInstruction):
                            viols.append({"kind": "on-path-successor-replaced", "key": bid, "what": "path %s: the on-path successor %d of block %d was replaced" % (ids, s_old.idx, bid)})
                    else:
                        if not (len(s_new.instructions) == 1 and isinstance(s_new.instructions[0], TealerCustomErrInstruction)):
                            viols.append({"kind": "offpath-not-error-block", "key": bid,
                                          "what": "path %s: successor %d of block %d leaves the path but is not an error block" % (ids, s_old.idx, bid)})
        # contexts wrt executions that start with the path
        by_line = {b.entry_instr.line: b for b in fn.blocks if b.entry_instr.line < (1 << 16)}
        for group, own, seq, visited, trace in sorted(execs, key=lambda e: any(b in e[2][len(ids):] for b in ids[:-1])):
            if seq[:len(ids)] != ids:
                continue
            ctr["executions_within_path"] += 1
            revisits = any(b in seq[len(ids):] for b in ids[:-1])
            for kind, ckey, what in soundness(fn, by_line, group, own, visited, ctr):
                viols.append({"kind": kind, "key": (tuple(ids), ckey), "ckey": ckey, "type_label": ckey if kind == "kind-missing" else None,
                              "what": "function for dispatch path %s: %s" % (ids, what),
                              "exec": {"group": group, "own": own}, "path_ids": ids, "revisits_path_block": revisits,
                              "main_sequence": seq[:40]})
        # contract graph untouched
        if graph_dump(teal) != g0:
            viols.append({"kind": "contract-graph-changed", "key": tuple(ids), "what": "building the function for %s changed the contract's own graph" % ids})
            g0 = graph_dump(teal)
    # independence: rebuild in another order on a fresh parse, compare dumps
    if len(built) >= 2:
        order = list(built)
        rng.shuffle(order)
        teal2, _o, _e = observe.parse_only(src, "c12")
        for ids in order[:4]:
            with observe.Quiet():
                fn2 = construct_function(teal2, ["B%d" % i for i in ids], "g")
            ctr["independence_comparisons"] += 1
            if fn_ctx_dump(fn2) != built[ids]:
                viols.append({"kind": "function-depends-on-build-order", "key": ids, "what": "contexts of the function for %s differ when other functions are built before it" % (list(ids),)})
        # and alone
        ids = order[-1]
        teal3, _o, _e = observe.parse_only(src, "c12")
        with observe.Quiet():
            fn3 = construct_function(teal3, ["B%d" % i for i in ids], "h")
        ctr["independence_comparisons"] += 1
        if fn_ctx_dump(fn3) != built[ids]:
            viols.append({"kind": "function-depends-on-build-order", "key": ids, "what": "contexts of the function for %s differ when it is built alone" % (list(ids),)})
    return src, viols, nontrivial


def make_reeval(path_ids):
    def reeval(prog, version, ex):
        src, _ = T.render(prog, version)
        try:
            teal, fn = build_fn(src, path_ids)
        except Exception:
            return None
        line_block = {}
        for b in teal.bbs:
            for i in b.instructions:
                line_block[i.line] = b
        r = avm.run(list(prog), ex["group"], ex["own"])
        if not r["ok"]:
            return None
        seq = main_sequence(list(prog), r["trace"], line_block)
        if seq[:len(path_ids)] != list(path_ids):
            return None
        visited = sorted(set(line_block[pc + 2].entry_instr.line for pc in r["trace"] if pc + 2 in line_block))
        by_line = {b.entry_instr.line: b for b in fn.blocks if b.entry_instr.line < (1 << 16)}
        return set((k, c) for k, c, _w in soundness(fn, by_line, ex["group"], ex["own"], visited, Ctr()))
    return reeval


def classify_c12(v, shim):
    """A dispatch path through a loop: the witness re-enters a path block after the prefix and leaves it by an
    edge that the function replaced with an error block (the construction cannot represent that)."""
    if v.get("revisits_path_block"):
        return "dispatch-path-block-revisited-after-prefix"
    return classify.fragment(v, shim, make_reeval(v["path_ids"]))


class _CaseShim:
    pass


def run_batch(spec):
    import signal
    common.import_tealer()
    rng = common.rng_for(PROP, spec["batch"], spec["seed"])
    ctr = Ctr()
    out = {"violations": [], "nontrivial": [], "samples": [], "cases": 0, "inconclusive": 0, "notes": []}
    allv = []

    class TO(BaseException):
        pass

    def _al(*a):
        raise TO()

    signal.signal(signal.SIGALRM, _al)
    for n in range(spec["n"]):
        c = fragment.generate(rng, {"max_subs": 3, "max_stmts": 3, "loops": rng.random() < 0.5})
        signal.alarm(90)
        try:
            src, viols, nontrivial = check_program(c["prog"], c["version"], rng, ctr, spec["tier"])
            # classify context violations with the shared counterfactual machinery
            done = set()
            for v in viols:
                v["src"], v["prog"], v["version"] = src, c["prog"], c["version"]
                v["mechanism"] = None
                k = (v["kind"], v.get("ckey"))
                if v.get("exec") and k not in done and len(done) < 4:
                    done.add(k)
                    shim = _CaseShim()
                    shim.prog, shim.version = c["prog"], c["version"]
                    shim.reads = inputs.Reads(c["prog"])
                    try:
                        v["mechanism"] = classify_c12(v, shim)
                    except Exception:
                        v["mechanism"] = None
                    allv.append(v)
                elif not v.get("exec"):
                    allv.append(v)
        except TO:
            out["inconclusive"] += 1
            continue
        except Exception:
            import traceback
            out["inconclusive"] += 1
            if len(out["notes"]) < 2:
                out["notes"].append({"raised": traceback.format_exc()[-700:]})
            continue
        finally:
            signal.alarm(0)
        common.release_tealer_caches()
        out["cases"] += 1
        out["nontrivial"].extend(nontrivial)
        if len(out["samples"]) < 1 and len(src) < 500:
            out["samples"].append({"src": src, "note": "functions built for every dispatch-path prefix (bounded)"})
    seen = {}
    for v in allv:
        seen.setdefault((v["kind"], v.get("ckey"), v.get("mechanism"), common.h(v["src"])), v)
    vals = sorted(seen.values(), key=lambda v: 0 if v.get("mechanism") is None else 1)   # unattributed ones first
    out["violations"] = vals[:60]
    out["counters"] = dict(ctr)
    return out


def replay(case):
    common.import_tealer()
    ctr = Ctr()
    prog = [tuple(i) for i in case["prog"]]
    src, viols, _ = check_program(prog, case["version"], random.Random(0), ctr, "quick")
    for v in viols:
        v["mechanism"] = None
        if v.get("exec"):
            shim = _CaseShim()
            shim.prog, shim.version = prog, case["version"]
            shim.reads = inputs.Reads(prog)
            try:
                v["mechanism"] = classify_c12(v, shim)
            except Exception:
                pass
    return {"violations": viols[:10], "cases": 1, "counters": dict(ctr)}


def coverage(m, tier):
    return {
        "rule": "fragment programs x root-to-block dispatch-path prefixes of the main graph (length <= 5, <= 8-12 per program) x "
                "build orders; non-trivial = distinct (program, dispatch path) of length >= 2",
        "evaluations": m["counters"].get("functions_built", 0),
    }
