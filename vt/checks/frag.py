"""Shared pipeline of the fragment-based checks (C01, C03, C06-C10, C12, ...):
generate a program, let the real tealer analyse it, run the reference interpreter over the
representative groups and keep the accepting executions with the blocks they visited.
"""
from vt import common
from vt.gen import fragment, inputs, teal as T
from vt.ref import avm
from vt.ref.cfg import RefCFG
from vt.mon import observe

U64 = (1 << 64) - 1
MAX_TXN_COST = 272000


class Exec:
    __slots__ = ("group", "own", "trace", "blocks", "ended_in_call", "last_pc")

    def __init__(self, group, own, trace, blocks, ended_in_call):
        self.group = group
        self.own = own
        self.trace = trace
        self.blocks = blocks  # ordered list of distinct tealer blocks visited (first-visit order)
        self.ended_in_call = ended_in_call
        self.last_pc = trace[-1] if trace else None


class Case:
    pass


def call_depth_at_end(prog, trace):
    d = 0
    for pc in trace:
        op = prog[pc][0]
        if op == "callsub":
            d += 1
        elif op == "retsub":
            d -= 1
    return d


def build(prog, version, rng, cap=1200, pair_mode="reps", name="contract", want_execs=True, features=None,
          forced_inputs=None):
    """Analyse with tealer and execute with the reference interpreter.  Raises whatever tealer raises."""
    c = Case()
    c.prog, c.version = prog, version
    c.features = features or []
    c.src, c.line_of = T.render(prog, version)
    c.reads = inputs.Reads(prog)
    c.obs = observe.analyse(c.src, name)
    c.function = c.obs.function
    c.line_block = observe.line_to_block(c.function)
    c.execs = []
    c.total_execs = 0
    c.exhaustive = True
    c.why = {}
    if want_execs:
        labels = T.labels_of(prog)
        if forced_inputs is not None:
            source = [(g, o, False) for g, o in forced_inputs]
        else:
            source = inputs.enumerate_groups(prog, rng, cap, pair_mode, c.reads)
        for group, own, exh in source:
            c.total_execs += 1
            c.exhaustive = c.exhaustive and exh
            r = avm.run(prog, group, own, labels=labels)
            if not r["ok"]:
                c.why[r["why"]] = c.why.get(r["why"], 0) + 1
                continue
            blocks, seen = [], set()
            missing = False
            for pc in r["trace"]:
                b = c.line_block.get(pc + 2)
                if b is None:
                    missing = True
                    continue
                if id(b) not in seen:
                    seen.add(id(b))
                    blocks.append(b)
            e = Exec(group, own, r["trace"], blocks, call_depth_at_end(prog, r["trace"]) > 0)
            c.execs.append(e)
            if missing:
                c.why["executed-line-not-in-function"] = c.why.get("executed-line-not-in-function", 0) + 1
    return c


# ---------------------------------------------------------------- values of the governed transaction

WILD = "*"


def val(t, field):
    """Value of a field in a transaction dict; WILD when the program never read it."""
    return t.get(field, WILD)


def kind_of(t):
    """(TypeEnum, OnCompletion, ApplicationID) or None when no kind field was read (wildcard)."""
    if "TypeEnum" in t:
        return (t["TypeEnum"], t["OnCompletion"], t["ApplicationID"])
    return None


def can_be_pay(t):
    k = kind_of(t)
    return k is None or k[0] == 1


def can_be_axfer(t):
    k = kind_of(t)
    return k is None or k[0] == 4


def can_be_appl_oc(t, oc):
    """Existing application (ApplicationID != 0) called with OnCompletion oc."""
    k = kind_of(t)
    return k is None or (k[0] == 6 and k[1] == oc and k[2] != 0)


def addr_is_attacker(t, field):
    return val(t, field) in (WILD, "ATTACKER")


def fee_can_exceed(t):
    f = val(t, "Fee")
    return f == WILD or f > MAX_TXN_COST


def reads_other_by_absolute_index(case, e):
    """The execution executes a gtxn / `int i; gtxns` read of a position other than its own."""
    for pc in e.trace:
        i = case.reads.abs_read_pcs.get(pc)
        if i is not None and i != e.own:
            return True
    return False


def carries(det, case, e):
    """Does accepting execution e carry detector det's dangerous value?"""
    t = e.group[e.own]
    if det == "rekey-to":
        return addr_is_attacker(t, "RekeyTo")
    if det == "can-close-account":
        return can_be_pay(t) and addr_is_attacker(t, "CloseRemainderTo")
    if det == "can-close-asset":
        return can_be_axfer(t) and addr_is_attacker(t, "AssetCloseTo")
    if det == "missing-fee-check":
        return fee_can_exceed(t)
    if det == "is-updatable":
        return can_be_appl_oc(t, 4)
    if det == "is-deletable":
        return can_be_appl_oc(t, 5)
    if det == "unprotected-updatable":
        return can_be_appl_oc(t, 4) and addr_is_attacker(t, "Sender")
    if det == "unprotected-deletable":
        return can_be_appl_oc(t, 5) and addr_is_attacker(t, "Sender")
    if det == "group-size-check":
        return len(e.group) == 16 and reads_other_by_absolute_index(case, e)
    raise ValueError(det)


def slim_exec(e):
    return {"group": e.group, "own": e.own, "visited_block_lines": [b.entry_instr.line for b in e.blocks]}


def gen_case(rng, profile=None):
    c = fragment.generate(rng, profile)
    return c["prog"], c["version"], c["features"]


class Ctr(dict):
    def __missing__(self, k):
        return 0
