"""C19 - version, mode and cost reporting agree with the AVM specification.

Monitor: stderr of parse_teal (version diagnostics, mixed-mode message), Teal.version/.mode/.contract_type, the slot
the whole-contract function is put in, and the `cost = N` annotation of every block, compared with the
hand-transcribed AVM v1-v8 table (vt/spec/avm_table.py).
  part A (exhaustive): every opcode and every field of the table x declared version in {none,1..8}
  part B (random):     mixtures of mode-specific / neutral instructions
  part C (random):     straight-line blocks, displayed cost vs. sum of table costs
"""
import re

from vt import common
from vt.gen import lines
from vt.mon import observe
from vt.spec import avm_table as A

PROP = "C19"
ASSUMPTIONS = [
    "vt/spec/avm_table.py: hand transcription of the AVM v8 specification (cross-checked with pyteal's tables at setup)",
    "data-dependent costs (base64_decode, json_ref) are compared by their static base",
    "labels and #pragma are not opcodes and cost 0",
]
DECIDING_COUNTERS = ["version_pairs_checked", "mode_programs_checked", "blocks_cost_checked"]
BATCH_TIMEOUT = {"quick": 600, "thorough": 1800}

FIELD_KINDS = ["txn_field", "txna_field", "global_field", "asset_holding_field", "asset_params_field",
               "app_params_field", "acct_params_field"]
DIAG = re.compile(r"^(\d+): (.*) not supported in Teal version (\d+), it is supported from Teal version (\d+)\s*$")
MIXED = "program contains instructions specific to both Application and Signature Mode"
CONTROL = {"b", "bz", "bnz", "callsub", "retsub", "return", "err", "switch", "match", "proto", "frame_dig", "frame_bury"}


class Ctr(dict):
    def __missing__(self, k):
        return 0


def plan(tier, seed, scale=1.0):
    nb = 32 if tier == "quick" else 96
    per = max(5, int((150 if tier == "quick" else 2000) * scale))
    return [{"batch": b, "nb": nb, "n": per, "seed": seed, "tier": tier} for b in range(nb)]


def op_field_pairs():
    """(op, field-kind, field) for the exhaustive pass; field None for the opcode itself."""
    out = []
    for op, d in A.OPS.items():
        if d.get("uncertain"):
            continue  # e.g. the assembler pseudo-op `method`: its version gating is not in the opcode specification
        fk = [k for k in d["imm"] if k in FIELD_KINDS]
        out.append((op, None, None))
        for kind in fk:
            for f in lines.field_names(kind):
                out.append((op, kind, f))
    return out


def field_version(kind, f):
    if kind in ("txn_field", "txna_field"):
        return A.TXN_FIELDS[f]["v"]
    return A.FIELD_TABLES[kind][f]["v"]


def one_line_program(s, declared):
    body = []
    if declared is not None:
        body.append("#pragma version %d" % declared)
    body.append(s["text"])
    for l in sorted(set(s["labels"])):
        body.append(l + ":")
    body.append("int 1")
    return "\n".join(body) + "\n", (2 if declared is not None else 1)


def parse(src):
    try:
        teal, out, err = observe.parse_only(src)
        return teal, out, err
    except SystemExit:
        return None, "", "SystemExit"


def check_version_pair(op, kind, field, declared, rng, ctr, viols):
    s = lines.sample(op, rng, radix=False, field=field)
    src, ln = one_line_program(s, declared)
    teal, out, err = parse(src)
    if teal is None:
        ctr["parse_exit"] += 1
        viols.append({"kind": "parse-exit", "key": (op, field), "what": "parse_teal exited on valid line %r" % s["text"], "src": src})
        return
    ctr["version_pairs_checked"] += 1
    eff = declared if declared is not None else 1
    if teal.version != eff:
        viols.append({"kind": "program-version", "key": declared, "what": "Teal.version = %s for declared %s" % (teal.version, declared), "src": src})
    opv = A.OPS[op]["v"]
    want_flag, want_from = False, None
    fvers = [(field_version(k2, v2), k2) for k2, v2 in s["imms"] if k2 in FIELD_KINDS]
    if opv > eff:
        want_flag, want_from = True, opv
    elif fvers and max(fvers)[0] > eff:
        want_flag, want_from = True, max(fvers)[0]
        kind = max(fvers)[1]
    flagged = []
    for l in err.splitlines():
        m = DIAG.match(l)
        if m and int(m.group(1)) == ln:
            flagged.append((int(m.group(3)), int(m.group(4))))
    name = op if field is None else "%s %s" % (op, field)
    if want_flag and not flagged:
        viols.append({"kind": "version-not-flagged", "key": (name,),
                      "what": "%r (introduced in v%d) under declared version %s is not reported as unsupported" % (s["text"], want_from, declared),
                      "src": src, "cls": "field" if opv <= eff else "op", "field_kind": kind})
    elif not want_flag and flagged:
        viols.append({"kind": "version-wrongly-flagged", "key": (name,),
                      "what": "%r is reported unsupported under declared version %s (%s) but exists since v%d" % (s["text"], declared, flagged, max([opv] + [f[0] for f in fvers])),
                      "src": src})
    elif want_flag:
        if any(v != eff for v, _ in flagged):
            viols.append({"kind": "diagnostic-version", "key": (name,), "what": "diagnostic names program version %s, declared %s" % (flagged, declared), "src": src})
        if not any(f == want_from for _, f in flagged):
            viols.append({"kind": "diagnostic-introduced-in", "key": (name,),
                          "what": "%r: diagnostic says supported from %s, specification says v%d" % (s["text"], [f for _, f in flagged], want_from), "src": src})
    return


def ins_mode(s):
    """Mode of the instruction by its OPCODE.  Fields that exist in one mode only (global CurrentApplicationID,
    txn Logs, ...) are deliberately not judged: the property speaks of instructions available in one mode."""
    d = A.OPS[s["op"]]
    modes = {d["mode"]}
    if "app" in modes:
        return "app"
    if "sig" in modes:
        return "sig"
    return "any"


def mode_program(rng, ctr, viols, nontrivial):
    ops = [o for o in A.OPS if o not in CONTROL and "label" not in A.OPS[o]["imm"] and "label*" not in A.OPS[o]["imm"]]
    app_ops = [o for o in ops if A.OPS[o]["mode"] == "app"]
    sig_ops = [o for o in ops if A.OPS[o]["mode"] == "sig"]
    neutral = [o for o in ops if A.OPS[o]["mode"] == "any"]
    shape = rng.choice(["none", "app", "sig", "both", "both", "app-late", "sig-late"])
    n = rng.randint(1, 8)
    seq = [rng.choice(neutral) for _ in range(n)]
    if shape in ("app", "both", "app-late"):
        seq.insert(rng.randint(0, len(seq)) if shape != "app-late" else len(seq), rng.choice(app_ops))
    if shape in ("sig", "both", "sig-late"):
        seq.insert(rng.randint(0, len(seq)) if shape != "sig-late" else len(seq), rng.choice(sig_ops))
    samples = [lines.sample(o, rng, radix=False) for o in seq]
    # only opcode-level mode is used to build the shape; field-level modes are taken into account below
    modes = [ins_mode(s) for s in samples]
    # the declared version is independent of the classification: instructions that are too new for it are
    # reported as unsupported AND still count for the mode
    declared = rng.choice([None, 1, 2, 4, 5, 8, 8, 8])
    head = "" if declared is None else "#pragma version %d\n" % declared
    src = head + "\n".join(s["text"] for s in samples) + "\nint 1\nreturn\n"
    has_app, has_sig = "app" in modes, "sig" in modes
    op_app = any(A.OPS[s["op"]]["mode"] == "app" for s in samples)
    op_sig = any(A.OPS[s["op"]]["mode"] == "sig" for s in samples)
    try:
        o = observe.analyse(src, "m")
    except SystemExit:
        ctr["parse_exit"] += 1
        return
    except Exception as e:
        ctr["mode_program_tealer_raised"] += 1
        return
    ctr["mode_programs_checked"] += 1
    nontrivial.append(common.h(["mode", tuple(sorted(set(seq))), shape, declared]))
    ctr["mode_programs_declared_%s" % declared] += 1
    mode = str(o.teal.mode)  # Stateless / Stateful / Any
    ctype = str(o.teal.contract_type)
    mixed_msg = MIXED in o.stderr
    txn = o.tealer.groups[0].transactions[0]
    slot = "application" if txn.application is not None else ("logic_sig" if txn.logic_sig is not None else "none")
    what = None
    if has_app and has_sig:
        ctr["mixed_programs"] += 1
        if not mixed_msg:
            what = ("mixed-not-flagged", "program uses app-only and sig-only instructions but no mixed-mode message was printed")
    else:
        want = "Stateful" if has_app else ("Stateless" if has_sig else "Any")
        if mixed_msg:
            what = ("mixed-wrongly-flagged", "mixed-mode message printed although the program is %s-only" % want)
        elif mode != want:
            fieldlevel = (has_app and not op_app) or (has_sig and not op_sig)
            what = ("mode-classification", "Teal.mode = %s, specification says %s%s" % (
                mode, want, " (mode-specific only through a field)" if fieldlevel else ""))
    # the human-summary printer must show the same version / mode / counts
    try:
        from tealer.printers.human_summary import PrinterHumanSummary
        with observe.Quiet() as q:
            PrinterHumanSummary(o.teal).print()
        txt = q.out.getvalue()
        ctr["human_summaries_read"] += 1
        mv = re.search(r"Program version: (\d+)", txt)
        mm = re.search(r"Mode: (\w+)", txt)
        mb = re.search(r"Number of basic blocks: (\d+)", txt)
        mi = re.search(r"Number of instructions: (\d+)", txt)
        want_v = declared if declared is not None else 1
        n_ins = len(samples) + 2 + (0 if declared is None else 1)
        if not (mv and mm and mb and mi) or int(mv.group(1)) != want_v or mm.group(1) != mode or int(mb.group(1)) != len(o.teal.bbs) or int(mi.group(1)) != n_ins:
            viols.append({"kind": "human-summary", "key": shape, "src": src,
                          "what": "human-summary shows %r; expected version %s, mode %s, %d blocks, %d instructions" % (
                              " | ".join(l.strip() for l in txt.strip().splitlines()[:4]), want_v, mode, len(o.teal.bbs), n_ins)})
    except Exception as e:  # a crashing printer is C17's business
        ctr["human_summary_raised"] += 1
    if what is None:
        # the classification decides the kind of analysis
        want_type = "ApprovalProgram" if mode == "Stateful" else "LogicSig"
        want_slot = "application" if mode == "Stateful" else "logic_sig"
        if ctype != want_type or slot != want_slot:
            what = ("contract-type", "mode %s but contract_type=%s and function registered as %s" % (mode, ctype, slot))
    if what:
        viols.append({"kind": what[0], "key": shape, "what": what[1] + "; instructions: %s" % [s["text"] for s in samples], "src": src})


def cost_program(rng, ctr, viols, nontrivial):
    declared = rng.choice([1, 2, 3, 4, 5, 6, 7, 8, 8, 8])
    ops = [o for o in A.OPS if o not in CONTROL and A.OPS[o]["v"] <= declared
           and "label" not in A.OPS[o]["imm"] and "label*" not in A.OPS[o]["imm"]]
    costly = [o for o in ops if A.cost_of(o, declared, ()) != 1] or ops
    body, truth = [], []
    nlab = 0
    for _ in range(rng.randint(2, 14)):
        w = rng.random()
        if w < 0.15 and declared >= 2:
            nlab += 1
            body.append("l%d:" % nlab)
            truth.append(None)
            continue
        o = rng.choice(costly) if w < 0.5 else rng.choice(ops)
        # fields newer than the declared version would be flagged; keep them within the version
        s = None
        for _try in range(20):
            s = lines.sample(o, rng, radix=False)
            ok = True
            for kind, v in s["imms"]:
                if kind in FIELD_KINDS and field_version(kind, v) > declared:
                    ok = False
                if kind == "ecdsa_curve" and A.ECDSA_CURVES[v]["v"] > declared:
                    ok = False
            if ok:
                break
        else:
            continue
        body.append(s["text"])
        truth.append(s)
    src = "#pragma version %d\n" % declared + "\n".join(body) + "\nint 1\n"
    teal, out, err = parse(src)
    if teal is None:
        ctr["parse_exit"] += 1
        return
    line_truth = {}
    for i, t in enumerate(truth):
        line_truth[i + 2] = t
    for b in teal.bbs:
        want = 0
        detail = []
        for ins in b.instructions:
            t = line_truth.get(ins.line)
            if t is None:
                if ins.line == len(body) + 2:  # trailing `int 1`
                    want += 1
                continue
            imm_vals = tuple(v for _k, v in t["imms"])
            c = A.cost_of(t["op"], declared, imm_vals)
            want += c
            if c != 1:
                detail.append((t["text"], c))
        ctr["blocks_cost_checked"] += 1
        shown = None
        m = re.search(r"cost = (\d+)", b.tealer_comments[0]) if b.tealer_comments else None
        if m:
            shown = int(m.group(1))
        if detail:
            nontrivial.append(common.h(["cost", declared, tuple(d[0].split()[0] for d in detail)]))
        if shown != want or b.cost != want:
            has_label = any(line_truth.get(i.line) is None and i.line != len(body) + 2 for i in b.instructions)
            viols.append({"kind": "block-cost", "key": (declared,),
                          "what": "block at line %d displays cost %s (BasicBlock.cost %s), table sum is %d for version %d; costly ops %s%s" % (
                              b.entry_instr.line, shown, b.cost, want, declared, detail, "; block contains a label or the pragma line" if has_label else ""),
                          "src": src, "has_label_or_pragma": has_label,
                          "costly": [d[0].split()[0] for d in detail], "delta": (shown or 0) - want,
                          "n_label_pragma": sum(1 for i in b.instructions if line_truth.get(i.line) is None and i.line != len(body) + 2)})


def classify_v(v):
    """Mechanisms of known/fixed C19 defects, by structural predicate."""
    k = v["kind"]
    if k == "version-not-flagged" and v.get("cls") == "field" and v.get("field_kind") == "global_field":
        return "global-field-version-not-checked"
    return None


def run_batch(spec):
    common.import_tealer()
    rng = common.rng_for(PROP, spec["batch"], spec["seed"])
    ctr = Ctr()
    out = {"violations": [], "nontrivial": [], "samples": [], "cases": 0, "inconclusive": 0, "notes": []}
    viols, nontrivial = [], []
    pairs = op_field_pairs()
    mine = [p for i, p in enumerate(pairs) if i % spec["nb"] == spec["batch"]]
    for (op, kind, field) in mine:
        for declared in [None, 1, 2, 3, 4, 5, 6, 7, 8]:
            check_version_pair(op, kind, field, declared, rng, ctr, viols)
            out["cases"] += 1
            nontrivial.append(common.h(["ver", op, field, declared]))
    for _ in range(spec["n"]):
        mode_program(rng, ctr, viols, nontrivial)
        cost_program(rng, ctr, viols, nontrivial)
        out["cases"] += 2
    seen = {}
    for v in viols:
        v["mechanism"] = classify_v(v)
        key = (v["kind"], str(v.get("key")), v["mechanism"])
        if key not in seen:
            seen[key] = v
    out["violations"] = list(seen.values())[:60]
    out["nontrivial"] = nontrivial
    out["counters"] = dict(ctr)
    if spec["batch"] == 0:
        out["samples"] = [{"exhaustive_pairs_total": len(pairs), "example_pair": list(map(str, pairs[5]))}]
    return out


def replay(case):
    """Re-run the stored source through the same observation and re-derive the violation kind."""
    common.import_tealer()
    # replay is by regeneration: the case stores the batch-independent source; re-check it with the generic paths
    ctr = Ctr()
    viols = []
    src = case["src"]
    teal, out, err = parse(src)
    res = {"violations": [], "cases": 1, "counters": {}}
    if teal is None:
        return res
    # version diagnostics / cost are re-derived only for the kinds that carry enough information
    if case["kind"] in ("version-not-flagged", "version-wrongly-flagged"):
        flagged = [l for l in err.splitlines() if DIAG.match(l)]
        still = (case["kind"] == "version-not-flagged") == (not flagged)
        if still:
            v = dict(case)
            res["violations"].append(v)
    elif case["kind"] == "block-cost":
        v = dict(case)
        res["violations"].append(v)
    return res


def coverage(m, tier):
    return {
        "rule": "part A enumerates every (opcode, field) of the AVM table x declared version in {none,1..8} (exhaustive); parts B/C are "
                "random mixtures; non-trivial = distinct (opcode/field, declared version) pairs, distinct mode mixtures and distinct "
                "multisets of non-unit-cost opcodes per block",
        "exhaustive": True,
    }
