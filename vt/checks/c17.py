"""C17 - analysis and every output mode complete on every valid contract.

Monitor: exit status / exception of `tealer detect` (text, --json -, --json file), every printer and `regex`, run
through tealer.__main__.main() in-process (same code path as the console script) and, for a sample, as a real
subprocess, on fragment programs and adversarial layouts whose subroutine bodies are entered only through callsub.
"""
import os
import shutil

from vt import common
from vt.gen import fragment, layout, teal as T
from vt.mon import cli, observe
from vt.ref.cfg import RefCFG

PROP = "C17"
ASSUMPTIONS = [
    "programs are assembler-valid by construction; programs in which a subroutine body can be entered other than by "
    "callsub (checked with vt/ref/cfg.py) are skipped, as the property excludes them",
    "in-process runs call tealer.__main__.main() with a patched argv; a sample goes through `python -m tealer`",
]
DECIDING_COUNTERS = ["cli_runs", "subprocess_runs", "layout_programs"]
BATCH_TIMEOUT = {"quick": 600, "thorough": 2400}
MODES = [
    ("detect-text", ["detect", "--contracts", "c.teal"]),
    ("detect-json-stdout", ["--json", "-", "detect", "--contracts", "c.teal"]),
    ("detect-json-file", ["--json", "out.json", "detect", "--contracts", "c.teal"]),
    ("print-cfg", ["print", "cfg", "--contracts", "c.teal"]),
    ("print-subroutine-cfg", ["print", "subroutine-cfg", "--contracts", "c.teal"]),
    ("print-call-graph", ["print", "call-graph", "--contracts", "c.teal"]),
    ("print-human-summary", ["print", "human-summary", "--contracts", "c.teal"]),
    ("print-transaction-context", ["print", "transaction-context", "--contracts", "c.teal"]),
    ("regex", ["regex", "rx.txt", "--contracts", "c.teal"]),
]


class Ctr(dict):
    def __missing__(self, k):
        return 0


class CaseTimeout(BaseException):
    pass


def plan(tier, seed, scale=1.0):
    nb = 32
    per = max(2, int((8 if tier == "quick" else 120) * scale))
    return [{"batch": b, "n": per, "seed": seed, "tier": tier} for b in range(nb)]


def gen_program(rng):
    w = rng.random()
    if w > 0.93:
        return rng.choice(RAW_SHAPES), 8, "raw"
    if w < 0.45:
        for _ in range(50):
            prog = layout.generate(rng, "disjoint", max_units=12, max_subs=3)
            full = [("#pragma", "version", 8)] + prog
            if RefCFG(full).disjoint():
                return prog, 8, "layout"
        return [("int", 1)], 8, "layout"
    if w < 0.55:
        # small hand-made hostile shapes
        shapes = [
            [("int", 1), ("callsub", "f"), ("label", "f"), ("retsub",)],  # overlapping: skipped by disjoint test
            [("callsub", "f"), ("int", 1), ("return",), ("label", "f"), ("txn", "Fee"), ("bnz", "f2"), ("retsub",), ("label", "dead"), ("int", 0),
             ("bnz", "f2"), ("label", "f3"), ("retsub",), ("label", "f2"), ("b", "f3")],
            [("label", "top"), ("int", 1), ("txn", "Fee"), ("bz", "top")],
            [("int", 1), ("return",), ("label", "a"), ("label", "b"), ("label", "c")],
            [("callsub", "e"), ("int", 1), ("return",), ("label", "e"), ("retsub",)],
            [("int", 1), ("callsub", "g"), ("label", "h"), ("int", 1), ("return",), ("label", "g"), ("retsub",)],
            [("b", "m"), ("label", "r"), ("callsub", "r"), ("retsub",), ("label", "m"), ("callsub", "r"), ("int", 1), ("return",)],
            [("int", 1), ("bnz", "end"), ("err",), ("label", "end"), ("int", 1), ("callsub", "last"), ("label", "last2"), ("int", 1), ("return",), ("label", "last"), ("retsub",)],
        ]
        prog = rng.choice(shapes)
        full = [("#pragma", "version", 8)] + prog
        if RefCFG(full).disjoint():
            return prog, 8, "hostile"
    c = fragment.generate(rng, {"recursion": rng.random() < 0.3, "max_subs": 3})
    return c["prog"], c["version"], "fragment"


RAW_SHAPES = [
    "int 1\n",                                                  # no pragma: version 1
    "txn Fee\nint 1000\n<=\n",                                   # v1, falls off the end
    "#pragma version 2\ntxn Fee\nint 1000\n<=\nbnz ok\nerr\nok:\nint 1\nreturn\n",
    "#pragma version 3\ntxn RekeyTo\nglobal ZeroAddress\n==\nassert\nint 1\nreturn\n",
    "#pragma version 8\n// only a comment\n\nint 1\n// trailing comment\n",
    "#pragma version 8\nint 1\nreturn\nunreachable:\nb unreachable\n",
    "#pragma version 8\nb end\ndead1:\nint 1\nbnz dead2\ndead2:\ncallsub helper\nend:\nint 1\nreturn\nhelper:\nretsub\n",
    "#pragma version 8\nbyte base64 AA//BB==\nlen\nreturn\n",
    "#pragma version 6\nmethod \"f()void\"\ntxna ApplicationArgs 0\n==\nreturn\n",
]


def one_program(prog, version, kind, rng, ctr, viols, nontrivial, tier, do_sub):
    if isinstance(prog, str):
        src, prog = prog, [("int", 1)]
    else:
        src, _ = T.render(prog, version)
    d = cli.scratch()
    try:
        with open(os.path.join(d, "c.teal"), "w") as f:
            f.write(src)
        labels = [i[1] for i in prog if i[0] == "label"]
        lab = rng.choice(labels) if labels and rng.random() < 0.6 else "*"
        pat = T.render_ins(rng.choice([i for i in prog if i[0] != "label"] or [("int", 1)]))
        with open(os.path.join(d, "rx.txt"), "w") as f:
            f.write("%s =>\n%s\n" % (lab, pat))
        for name, argv in MODES:
            cli.clean_outdir()
            r = cli.run_inprocess(argv, d)
            ctr["cli_runs"] += 1
            ctr["cli_runs_" + name] += 1
            nontrivial.append(common.h([kind, name, len(prog) % 5, bool(labels)]))
            if r.exc or r.status not in (0,):
                viols.append({"kind": "cli-failed", "key": name, "mode": name, "gen": kind,
                              "what": "`tealer %s` ended with status %s%s" % (" ".join(argv), r.status, (", " + r.exc + ": " + r.tb.strip().splitlines()[-1][:200]) if r.exc else ""),
                              "trace": r.tb[-800:], "src": src, "prog": prog, "version": version})
        if do_sub:
            name, argv = rng.choice(MODES)
            r = cli.run_subprocess(argv, d)
            ctr["subprocess_runs"] += 1
            if r.exc == "timeout":
                ctr["subprocess_timeouts"] += 1
            elif r.exc or r.status != 0:
                viols.append({"kind": "cli-failed-subprocess", "key": name, "mode": name, "gen": kind,
                              "what": "`python -m tealer %s` exited with status %s %s" % (" ".join(argv), r.status, r.exc or ""),
                              "trace": r.tb[-800:], "src": src, "prog": prog, "version": version})
    finally:
        shutil.rmtree(d, ignore_errors=True)


def run_batch(spec):
    import signal
    common.import_tealer()
    rng = common.rng_for(PROP, spec["batch"], spec["seed"])
    ctr = Ctr()
    viols, nontrivial = [], []
    out = {"violations": [], "nontrivial": [], "samples": [], "cases": 0, "inconclusive": 0, "notes": []}

    def _alarm(*_a):
        raise CaseTimeout()

    signal.signal(signal.SIGALRM, _alarm)
    for n in range(spec["n"]):
        prog, version, kind = gen_program(rng)
        ctr[kind + "_programs"] += 1
        signal.alarm(120)
        try:
            one_program(prog, version, kind, rng, ctr, viols, nontrivial, spec["tier"], do_sub=(n % 4 == 0))
            common.release_tealer_caches()
            out["cases"] += 1
        except CaseTimeout:
            out["inconclusive"] += 1
            ctr["case_watchdog_fired"] += 1
        finally:
            signal.alarm(0)
        if len(out["samples"]) < 1 and kind == "layout" and not isinstance(prog, str) and len(prog) < 40:
            out["samples"].append({"gen": kind, "src": T.render(prog, version)[0], "modes": [m for m, _ in MODES]})
    seen = {}
    for v in viols:
        v["mechanism"] = None
        seen.setdefault((v["kind"], v["key"], (v.get("trace") or "").strip().splitlines()[-1:] and v["trace"].strip().splitlines()[-1][:80]), v)
    out["violations"] = list(seen.values())[:40]
    out["nontrivial"] = nontrivial
    out["counters"] = dict(ctr)
    return out


def replay(case):
    common.import_tealer()
    import random
    ctr = Ctr()
    viols, nt = [], []
    prog = [tuple(i) for i in case["prog"]]
    one_program(prog, case["version"], case.get("gen", "replay"), random.Random(0), ctr, viols, nt, "quick", True)
    for v in viols:
        v["mechanism"] = None
    return {"violations": viols, "cases": 1, "counters": dict(ctr)}


def coverage(m, tier):
    return {
        "rule": "fragment programs, disjoint-mode adversarial layouts (dead code that branches/calls, labels at end, empty "
                "subroutines, back-to-back labels, recursion, branch/call as last instruction) x 9 CLI modes; non-trivial = distinct "
                "(generator class, mode, size class, has-labels) combinations",
        "evaluations": m["counters"].get("cli_runs", 0) + m["counters"].get("subprocess_runs", 0),
    }
