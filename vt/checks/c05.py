"""C05 - subroutine, call-site and return-point structure is faithful.

Monitor: Teal.subroutines and the caller / return-point tables (contract level and Function level) and
the call-graph export, compared with the reference call structure computed from the source.
"""
import os
import random
import re

from vt import common, classify
from vt.gen import layout, fragment, teal as T
from vt.ref.cfg import RefCFG
from vt.mon import observe

PROP = "C05"
ASSUMPTIONS = [
    "reference call structure from vt/ref/cfg.py (callsub targets, local reachability without following calls)",
    "generated programs keep subroutine bodies disjoint and entered only through callsub (checked, others skipped)",
]
DECIDING_COUNTERS = ["subroutines_checked", "callsites_checked", "call_graph_exports_read"]


class _Ctr(dict):
    def __missing__(self, k):
        return 0


def plan(tier, seed, scale=1.0):
    n_batches, per = (32, 300) if tier == "quick" else (160, 1500)
    per = max(10, int(per * scale))
    return [{"batch": b, "n": per, "seed": seed, "tier": tier} for b in range(n_batches)]


def lines_of(blocks):
    return sorted(i.line for b in blocks for i in b.instructions)


def check_program(prog, version, ctr, with_function):
    src, _ = T.render(prog, version)
    full = [("#pragma", "version", version)] + list(prog)
    ref = RefCFG(full)
    if not ref.disjoint():
        return src, None, None
    viol = []
    teal, _o, _e = observe.parse_only(src)
    L = lambda k: k + 1  # noqa: E731  line of full-program index
    if set(teal.subroutines) != set(ref.sub_entry):
        viol.append(("subroutine-set", "subroutines %s, reference %s" % (sorted(teal.subroutines), sorted(ref.sub_entry))))
    line_block = {}
    for b in teal.bbs:
        for i in b.instructions:
            line_block[i.line] = b
    last_k = ref.n - 1
    for name, sub in teal.subroutines.items():
        if name not in ref.sub_entry:
            continue
        ctr["subroutines_checked"] += 1
        if sub.entry.entry_instr.line != L(ref.sub_entry[name]):
            viol.append(("sub-entry", "%s entry at line %d, label at %d" % (name, sub.entry.entry_instr.line, L(ref.sub_entry[name]))))
        want = sorted(L(k) for k in ref.sub_members[name])
        if lines_of(sub.blocks) != want:
            viol.append(("sub-blocks", "%s blocks hold lines %s, reference %s" % (name, lines_of(sub.blocks)[:14], want[:14])))
        for b in sub.blocks:
            try:
                if b.subroutine is not sub:
                    viol.append(("block-owner", "block at line %d says subroutine %s, listed in %s" % (b.entry_instr.line, b.subroutine.name, name)))
            except Exception as e:
                viol.append(("block-owner", "block at line %d: %s" % (b.entry_instr.line, e)))
    procs = [("__main__", teal.main, ref.main_members)] + [
        (n, teal.subroutines[n], ref.sub_members[n]) for n in ref.sub_entry if n in teal.subroutines]
    for name, sub, members in procs:
        if name == "__main__" and lines_of(sub.blocks) != sorted(L(k) for k in members):
            viol.append(("main-blocks", "main blocks hold lines %s, reference %s" % (lines_of(sub.blocks)[:14], sorted(L(k) for k in members)[:14])))
        # exits
        want_ret = sorted(L(k) for k in members if full[k][0] == "retsub")
        got_ret = sorted(b.exit_instr.line for b in sub.retsub_blocks)
        if want_ret != got_ret:
            viol.append(("retsub-blocks", "%s retsub blocks end at %s, reference %s" % (name, got_ret, want_ret)))
        want_exit = sorted(L(k) for k in members if full[k][0] in ("retsub", "return", "err")
                           or (k == last_k and full[k][0] != "b"))
        got_exit = sorted(b.exit_instr.line for b in sub.exit_blocks)
        if want_exit != got_exit:
            kind = "exit-blocks"
            viol.append((kind, "%s exit blocks end at lines %s, reference %s (last line %d: %s)" % (
                name, got_exit, want_exit, L(last_k), full[last_k][0])))
        ctr["procedures_checked"] += 1
    # call sites
    for k, name in ref.retained_callsites:
        ctr["callsites_checked"] += 1
        b = line_block.get(L(k))
        if b is None or b.exit_instr.line != L(k) or not b.is_callsub_block:
            viol.append(("callsite-block", "callsub at line %d is not the last instruction of a callsub block" % L(k)))
            continue
        if b.called_subroutine is not teal.subroutines.get(name):
            viol.append(("called-subroutine", "callsub %s at line %d resolved to %s" % (name, L(k), getattr(b.called_subroutine, "name", None))))
        rp = b.sub_return_point
        want_rp = L(k + 1) if k + 1 < ref.n else None
        got_rp = rp.entry_instr.line if rp is not None else None
        if got_rp != want_rp:
            viol.append(("return-point", "callsub at line %d resumes at line %s, reference %s" % (L(k), got_rp, want_rp)))
    for name in ref.sub_entry:
        sub = teal.subroutines.get(name)
        if sub is None:
            continue
        want_c = sorted(L(k) for k, nm in ref.retained_callsites if nm == name)
        got_c = sorted(b.exit_instr.line for b in sub.caller_blocks)
        if want_c != got_c:
            viol.append(("caller-table", "%s callers at lines %s, reference %s" % (name, got_c, want_c)))
        want_r = sorted(L(k + 1) for k, nm in ref.retained_callsites if nm == name and k + 1 < ref.n)
        got_r = sorted(b.entry_instr.line for b in sub.return_point_blocks)
        if want_r != got_r:
            viol.append(("return-point-table", "%s return points at lines %s, reference %s" % (name, got_r, want_r)))
    # call graph export
    if version >= 4:
        from tealer.printers.call_graph import PrinterCallGraph
        with observe.Quiet():
            PrinterCallGraph(teal).print()
        path = os.path.join(common.OUT_DIR, teal.contract_name, "call-graph.dot")
        with open(path, encoding="utf-8") as f:
            dot = f.read()
        os.remove(path)
        ctr["call_graph_exports_read"] += 1
        bad = common.dot_malformed(dot)
        if bad:
            viol.append(("call-graph-malformed", "call-graph.dot is not a well-formed digraph: %s" % bad))
        edges = set(re.findall(r"^(\S+) -> (\S+);$", dot, re.M))
        nodes = set(re.findall(r"^(\S+)\[label=", dot, re.M))

        def owner(k):
            o = ref.owners(k)
            return o[0]

        want_e = set((owner(k), nm) for k, nm in ref.retained_callsites)
        if edges != want_e:
            viol.append(("call-graph-edges", "call-graph.dot edges %s, reference %s" % (sorted(edges), sorted(want_e))))
        if nodes != set(ref.sub_entry):
            viol.append(("call-graph-nodes", "call-graph.dot nodes %s, reference %s" % (sorted(nodes), sorted(ref.sub_entry))))
    nontrivial = None
    if len(ref.retained_callsites) >= 2:
        nontrivial = common.h(sorted((ref.owners(k)[0], nm) for k, nm in ref.retained_callsites) + [len(ref.sub_entry)])
    # function level
    if with_function:
        try:
            o = observe.analyse(src)
        except Exception:
            ctr["function_build_crashed"] += 1
            o = None
        if o is not None:
            ctr["functions_checked"] += 1
            fn = o.function
            reach = set(ref.main_members)
            work = [nm for k, nm in ref.callsites if k in ref.main_members]
            done = set()
            while work:
                nm = work.pop()
                if nm in done:
                    continue
                done.add(nm)
                reach |= ref.sub_members[nm]
                work.extend(n2 for k, n2 in ref.callsites if k in ref.sub_members[nm])
            if set(fn.subroutines) != done:
                viol.append(("function-subroutines", "function uses subroutines %s, reference %s" % (sorted(fn.subroutines), sorted(done))))
            for nm, sub in fn.subroutines.items():
                want_c = sorted(L(k) for k, n2 in ref.callsites if n2 == nm and k in reach)
                got_c = sorted(b.exit_instr.line for b in fn.caller_blocks(sub))
                if want_c != got_c:
                    viol.append(("function-caller-table", "%s callers in function at lines %s, reference %s" % (nm, got_c, want_c)))
                want_r = sorted(L(k + 1) for k, n2 in ref.callsites if n2 == nm and k in reach and k + 1 < ref.n)
                got_r = sorted(b.entry_instr.line for b in fn.return_point_blocks(sub))
                if want_r != got_r:
                    viol.append(("function-return-point-table", "%s return points in function at lines %s, reference %s" % (nm, got_r, want_r)))
                for b in fn.caller_blocks(sub):
                    if b not in fn.blocks:
                        viol.append(("function-caller-outside", "caller block at line %d is not a block of the function" % b.entry_instr.line))
    return src, viol, nontrivial


def _mk(v, src, prog, version, gen=None):
    d = {"kind": v[0], "what": v[1], "src": src, "prog": prog, "version": version, "gen": gen}
    d["mechanism"] = classify.c05(d)
    return d


def run_batch(spec):
    rng = common.rng_for(PROP, spec["batch"], spec["seed"])
    common.import_tealer()
    ctr = _Ctr()
    out = {"violations": [], "nontrivial": [], "samples": [], "cases": 0, "inconclusive": 0}
    for n in range(spec["n"]):
        if rng.random() < 0.75:
            prog, version, kind = layout.generate(rng, "disjoint", max_subs=6), rng.choice([4, 6, 8, 8]), "layout-disjoint"
            version = max(version, T.min_version(prog))
        else:
            c = fragment.generate(rng, {"max_subs": 6, "recursion": rng.random() < 0.5})
            prog, version, kind = c["prog"], c["version"], "fragment"
        try:
            src, viol, nt = check_program(prog, version, ctr, with_function=(n % 6 == 0))
        except Exception as e:
            import traceback
            src, _ = T.render(prog, version)
            viol, nt = [("crash", "observation raised %s: %s" % (type(e).__name__, traceback.format_exc()[-300:]))], None
        if viol is None:
            ctr["skipped_not_disjoint"] += 1
            continue
        out["cases"] += 1
        ctr["programs_" + kind] += 1
        if nt:
            out["nontrivial"].append(nt)
        per_kind = {}
        for v in viol:
            # at most two per kind, so that many observations of one (possibly listed) mechanism cannot crowd out another
            if per_kind.get(v[0], 0) >= 2 or sum(per_kind.values()) >= 10:
                continue
            per_kind[v[0]] = per_kind.get(v[0], 0) + 1
            out["violations"].append(_mk(v, src, prog, version, kind))
        if len(out["samples"]) < 2 and len(src) < 900 and nt:
            out["samples"].append({"gen": kind, "src": src})
    out["counters"] = dict(ctr)
    return out


def replay(case):
    common.import_tealer()
    ctr = _Ctr()
    prog = [tuple(i) for i in case["prog"]]
    src, viol, _ = check_program(prog, case["version"], ctr, True)
    return {"violations": [_mk(v, src, prog, case["version"]) for v in (viol or [])], "cases": 1, "counters": dict(ctr)}


def coverage(m, tier):
    return {
        "rule": "disjoint-mode layouts (0-6 subroutines; nested, shared, recursive, unreachable call sites, bodies before/after "
                "main) and fragment programs; non-trivial = at least 2 retained call sites; distinct = distinct call multigraph",
    }
