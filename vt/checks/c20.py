"""C20 - the regex engine reports exactly the reachable occurrences.

Monitor: match_regex(teal, parse_regex(text)) -> (matches, covered) against an independent reachability
computation and straight-line matcher on the reference instruction graph (intra-procedural edges, the relation
tealer's Instruction.next denotes; retained instructions only).
"""
from vt import common
from vt.gen import fragment, teal as T
from vt.mon import observe
from vt.ref.cfg import RefCFG

PROP = "C20"
ASSUMPTIONS = [
    "instruction-level control flow = intra-procedural successor relation of vt/ref/cfg.py (a callsub continues at the next "
    "instruction; the callee is searched only when its own label is named)",
    "a conditional branch is a branching instruction even when its target is the next line",
    "pattern texts are compared in canonical (printed) form",
]
DECIDING_COUNTERS = ["queries", "queries_with_match", "covered_sets_checked"]


class Ctr(dict):
    def __missing__(self, k):
        return 0


def plan(tier, seed, scale=1.0):
    nb = 32
    per = max(5, int((60 if tier == "quick" else 1200) * scale))
    return [{"batch": b, "n": per, "seed": seed, "tier": tier} for b in range(nb)]


def chain_from(ref, k, length):
    """Indices of the unique-successor chain of `length` instructions starting at k (None if it breaks)."""
    out = [k]
    while len(out) < length:
        s = ref.local_succ[out[-1]]
        if len(s) != 1:
            return None
        out.append(s[0])
    return out


def ref_query(full, ref, start, pattern):
    """Returns (match_chains, covered_set) over indices of `full` restricted to retained instructions."""
    reach = set()
    work = [start]
    while work:
        k = work.pop()
        if k in reach:
            continue
        reach.add(k)
        work.extend(ref.local_succ[k])
    texts = [T.render_ins(i) if i[0] != "#pragma" else "#pragma version %d" % i[2] for i in full]
    starts = []
    for k in sorted(reach):
        ch = chain_from(ref, k, len(pattern))
        if ch is None:
            # the chain may break only AFTER the last pattern instruction
            ok = True
            cur = k
            ch = []
            for pi, p in enumerate(pattern):
                if cur is None or texts[cur] != p:
                    ok = False
                    break
                ch.append(cur)
                s = ref.local_succ[cur]
                cur = s[0] if len(s) == 1 else None
            if ok:
                starts.append(ch)
            continue
        if all(texts[i] == p for i, p in zip(ch, pattern)):
            starts.append(ch)
    mstarts = set(c[0] for c in starts)
    # covered: reachable instructions that reach a match start in >= 1 step
    preds = {}
    for k in reach:
        for s in ref.local_succ[k]:
            preds.setdefault(s, set()).add(k)
    cov = set()
    work = list(mstarts)
    seen = set()
    while work:
        m = work.pop()
        for p in preds.get(m, ()):
            if p in reach and p not in cov:
                cov.add(p)
                work.append(p)
    return starts, cov


def make_patterns(full, ref, rng, n):
    texts = [T.render_ins(i) if i[0] != "#pragma" else "#pragma version %d" % i[2] for i in full]
    pats = []
    retained = sorted(ref.retained)
    for _ in range(n):
        w = rng.random()
        length = rng.randint(1, 4)
        k = rng.choice(retained[1:] or retained)
        ch = chain_from(ref, k, length)
        if w < 0.5 and ch:
            pats.append(("present", [texts[i] for i in ch]))
        elif w < 0.65 and ch:
            p = [texts[i] for i in ch]
            j = rng.randrange(len(p))
            p[j] = rng.choice(["int 424242", "pop", "txn Note", "assert"])
            pats.append(("mutated", p))
        elif w < 0.8:
            # a pattern that would have to continue across a branching instruction
            br = [i for i in retained if full[i][0] in ("bz", "bnz", "switch", "match") and i + 1 < len(full)]
            if br:
                i = rng.choice(br)
                pats.append(("across-branch", [texts[i], texts[i + 1]]))
            else:
                pats.append(("single", [texts[k]]))
        elif w < 0.9:
            # spans an unconditional jump: `b L` followed by the instructions at L
            bs = [i for i in retained if full[i][0] == "b"]
            if bs:
                i = rng.choice(bs)
                ch2 = chain_from(ref, i, rng.randint(2, 4))
                if ch2:
                    pats.append(("across-b", [texts[x] for x in ch2]))
                    continue
            pats.append(("single", [texts[k]]))
        else:
            pats.append(("frequent", [rng.choice(["int 1", "assert", "return", "pop", "=="])] * rng.randint(1, 2)))
    return pats


def check_program(prog, version, rng, ctr, viols, nontrivial, match_regex, parse_regex):
    src, _ = T.render(prog, version)
    full = [("#pragma", "version", version)] + list(prog)
    ref = RefCFG(full)
    teal, _o, _e = observe.parse_only(src)
    by_line = {i.line: i for i in teal.instructions}
    labels = ["*"] + [l for l, k in ref.labels.items() if k in ref.retained]
    rng.shuffle(labels)
    for label in labels[:4]:
        start = 0 if label == "*" else ref.labels[label]
        for kind, pat in make_patterns(full, ref, rng, 4):
            text = "%s =>\n%s\n" % (label, "\n".join(pat))
            ctr["queries"] += 1
            try:
                with observe.Quiet():
                    rx = parse_regex(text)
                    matches, covered = match_regex(teal, rx)
            except Exception as e:
                viols.append({"kind": "regex-crash", "key": kind, "what": "match_regex raised %s: %s on %r" % (type(e).__name__, e, text), "src": src, "regex": text})
                continue
            want_m, want_c = ref_query(full, ref, start, pat)
            got_m = sorted([i.line - 1 for i in m] for m in matches)
            want_m_s = sorted(want_m)
            if want_m:
                ctr["queries_with_match"] += 1
            if got_m != want_m_s:
                viols.append({"kind": "matches-differ", "key": kind,
                              "what": "label %s pattern %s (%s): matches at lines %s, reference %s" % (
                                  label, pat, kind, [[x + 1 for x in m] for m in got_m], [[x + 1 for x in m] for m in want_m_s]),
                              "src": src, "regex": text})
                continue
            for m in matches:
                if [str(i) for i in m] != pat:
                    viols.append({"kind": "match-text", "key": kind, "what": "reported match %s does not spell the pattern %s" % ([str(i) for i in m], pat), "src": src, "regex": text})
            got_c = set(i.line - 1 for i in covered)
            ctr["covered_sets_checked"] += 1
            extra = sorted(got_c - want_c)
            missing = sorted(want_c - got_c)
            if want_m and len(want_c) > 2:
                # joins/loops make the covered set interesting
                nontrivial.append(common.h([src, label, pat]))
            if extra:
                viols.append({"kind": "covered-extra", "key": kind,
                              "what": "label %s pattern %s: covered contains lines %s that do not lie on a path from the label to a match" % (label, pat, [x + 1 for x in extra]),
                              "src": src, "regex": text})
            # colours in the exported DOT (a sample): match rows red, covered rows green (green wins on overlap)
            if want_m and ctr["queries"] % 7 == 0:
                try:
                    check_colours(teal, text, matches, covered, viols, src, ctr)
                except Exception as e:
                    viols.append({"kind": "regex-export-crash", "key": kind, "what": "run_regex raised %s: %s" % (type(e).__name__, e), "src": src, "regex": text})
            if missing:
                viols.append({"kind": "covered-missing", "key": kind,
                              "what": "label %s pattern %s: lines %s lie on a path from the label to a match (at %s) but are not covered" % (
                                  label, pat, [x + 1 for x in missing], [m[0] + 1 for m in want_m_s]),
                              "src": src, "regex": text, "prog": prog, "version": version})


def check_colours(teal, regex_text, matches, covered, viols, src, ctr):
    import os
    import re as _re
    import tempfile
    from pathlib import Path
    from tealer.utils.regex.regex import run_regex
    d = tempfile.mkdtemp(prefix="vt_rx_")
    try:
        rx = os.path.join(d, "rx.txt")
        with open(rx, "w") as f:
            f.write(regex_text)
        outp = os.path.join(d, "regex_result.dot")
        with observe.Quiet():
            run_regex(teal, Path(rx), Path(outp))
        dot = open(outp).read()
        ctr["regex_dots_read"] += 1
        red, green = set(), set()
        for m in _re.finditer(r'<TD ALIGN="LEFT" BALIGN="LEFT" COLOR="([^"]*)">(.*?)</TD>', dot, _re.S):
            last = m.group(2).split("<BR/>")[-1]
            mm = _re.match(r"^(?:<B><I>)?(\d+)\. ", _re.sub(r"</?[BI]>", "", last))
            if not mm:
                continue
            if m.group(1) == "#e0182b":
                red.add(int(mm.group(1)))
            elif m.group(1) == "#36d899":
                green.add(int(mm.group(1)))
        want_green = set(i.line for i in covered)
        want_red = set(i.line for mt in matches for i in mt) - want_green
        if red != want_red or green != want_green:
            viols.append({"kind": "regex-dot-colours", "key": "colours", "src": src, "regex": regex_text,
                          "what": "regex_result.dot marks lines red %s / green %s; matches are %s, covered %s" % (
                              sorted(red)[:10], sorted(green)[:10], sorted(want_red)[:10], sorted(want_green)[:10])})
    finally:
        import shutil
        shutil.rmtree(d, ignore_errors=True)


def run_batch(spec):
    common.import_tealer()
    from tealer.utils.regex.regex import match_regex, parse_regex

    rng = common.rng_for(PROP, spec["batch"], spec["seed"])
    ctr = Ctr()
    viols, nontrivial = [], []
    out = {"violations": [], "nontrivial": [], "samples": [], "cases": 0, "inconclusive": 0, "notes": []}
    for n in range(spec["n"]):
        c = fragment.generate(rng, {"max_subs": 2, "direct_only": rng.random() < 0.5})
        try:
            check_program(c["prog"], c["version"], rng, ctr, viols, nontrivial, match_regex, parse_regex)
        except RecursionError:
            out["inconclusive"] += 1
            continue
        out["cases"] += 1
    seen = {}
    for v in viols:
        v["mechanism"] = None
        seen.setdefault((v["kind"], v["key"], common.h(v["src"])), v)
    out["violations"] = list(seen.values())[:40]
    out["nontrivial"] = nontrivial
    out["counters"] = dict(ctr)
    if viols[:1] == [] and spec["batch"] == 0:
        out["samples"] = [{"note": "queries are (program, label, pattern) triples; see rule"}]
    return out


def replay(case):
    common.import_tealer()
    from tealer.utils.regex.regex import match_regex, parse_regex
    import random
    return {"violations": [dict(case)], "cases": 1, "counters": {}}


def coverage(m, tier):
    return {
        "rule": "fragment programs with joins and loops x up to 4 labels (incl. `*`) x 4 patterns of 1-4 instructions (present, "
                "mutated/absent, repeated, spanning `b`/labels, across a branching instruction); non-trivial = distinct (program, "
                "label, pattern) with a match and more than two covered instructions",
        "evaluations": m["counters"].get("queries", 0),
    }
