"""C11 - reconstructed operands equal the operands the AVM would pass.

Monitor: construct_stack_ast(block)[ins].args for every instruction of straight-line blocks, against a
tagged-stack reference machine driven by the AVM stack-effect table.  Every stack cell carries its history:
the (instruction, output position) that created it and every shuffle output position it later occupied.
A claim `KnownStackValue(producer, position)` is right iff (producer, position) is in the history of the cell
the AVM really passes as that operand; `UnknownStackValue` is right iff the cell comes from below the block.
"""
from vt import common
from vt.gen import lines
from vt.mon import observe
from vt.spec import avm_table as A

PROP = "C11"
ASSUMPTIONS = [
    "vt/spec/avm_table.py stack effects (pops/pushes and the identity maps of dup/dup2/swap/dig/cover/uncover/bury/popn/dupn)",
    "a shuffle is described as 'reads a window of the top values and leaves a window' (dig n = n+1 in, n+2 out); a "
    "reconstruction that names either the shuffle or the original producer of a moved value is accepted",
    "after frame_bury / frame_dig (frame pointer unknown inside one block) claims about possibly overwritten cells are skipped",
]
DECIDING_COUNTERS = ["operand_claims_checked", "instructions_checked", "sequences_with_shuffle"]
CONTROL = {"b", "bz", "bnz", "callsub", "retsub", "return", "err", "switch", "match"}
SHUFFLES = {"dup", "dup2", "swap", "dig", "cover", "uncover", "bury", "popn", "dupn", "select"}


class Ctr(dict):
    def __missing__(self, k):
        return 0


def plan(tier, seed, scale=1.0):
    nb = 32
    per = max(20, int((700 if tier == "quick" else 16000) * scale))
    return [{"batch": b, "nb": nb, "n": per, "seed": seed, "tier": tier} for b in range(nb)]


class Cell:
    __slots__ = ("hist", "bottom", "tainted")

    def __init__(self, bottom=False):
        self.hist = set()
        self.bottom = bottom
        self.tainted = False


def identity_map(op, imms, window):
    """For a pure shuffle: list of input-window indices, one per output position (None if not a pure shuffle)."""
    n = imms[0] if imms else None
    k = len(window)
    if op == "dup":
        return [0, 0]
    if op == "dup2":
        return [0, 1, 0, 1]
    if op == "swap":
        return [1, 0]
    if op == "dig":
        return list(range(k)) + [0]
    if op == "cover":
        return [k - 1] + list(range(k - 1))
    if op == "uncover":
        return list(range(1, k)) + [0]
    if op == "bury":
        return [k - 1] + list(range(1, k - 1))
    if op == "popn":
        return []
    if op == "dupn":
        return [0] * (n + 1)
    return None


def flat(imms):
    """Immediates as the table's stack_effect expects them: list-valued immediates spliced in."""
    out = []
    for v in imms:
        if isinstance(v, list):
            out.extend(v)
        else:
            out.append(v)
    return tuple(out)


def reference(seq):
    """seq: list of sample dicts (op, imms).  Returns per instruction: list of operand Cells (deepest first)."""
    stack = []
    out = []
    for idx, s in enumerate(seq):
        op = s["op"]
        imms = [v for _k, v in s["imms"]]
        if op == "#pragma" or op == "label":
            out.append([])
            continue
        pops, pushes = A.stack_effect(op, flat(imms))
        need = pops - len(stack)
        if need > 0:
            stack = [Cell(bottom=True) for _ in range(need)] + stack
        window = stack[len(stack) - pops:] if pops else []
        del stack[len(stack) - pops:]
        out.append(list(window))
        imap = identity_map(op, imms, window)
        if imap is not None and len(imap) == pushes:
            for j, src in enumerate(imap):
                c = Cell()
                c.hist = set(window[src].hist) | {(idx, j)}
                c.bottom = window[src].bottom
                c.tainted = window[src].tainted
                stack.append(c)
        else:
            for j in range(pushes):
                c = Cell()
                c.hist = {(idx, j)}
                stack.append(c)
        if op in ("frame_bury", "frame_dig", "proto"):
            for c in stack:
                c.tainted = True
            # cells below the block may have been overwritten as well
            out[-1] = out[-1]
            stack = [c for c in stack]
            reference.taint_bottom = True
    return out


def gen_sequence(rng, allow_frame=True):
    ops = [o for o in A.OPS if o not in CONTROL and "label" not in A.OPS[o]["imm"] and "label*" not in A.OPS[o]["imm"]]
    shuf = ["dup", "dup2", "swap", "dig", "cover", "uncover", "bury", "popn", "dupn", "select", "pushints", "pushbytess"]
    multi = ["mulw", "addw", "divmodw", "expw", "app_local_get_ex", "app_global_get_ex", "asset_holding_get", "asset_params_get",
             "app_params_get", "acct_params_get", "ecdsa_pk_decompress", "ecdsa_pk_recover", "vrf_verify", "box_len", "box_get"]
    pushes = ["int", "byte", "txn", "global", "addr", "pushint", "load"]
    seq = []
    n = rng.randint(1, 30)
    for _ in range(n):
        w = rng.random()
        if w < 0.3:
            op = rng.choice(pushes)
        elif w < 0.6:
            op = rng.choice(shuf)
        elif w < 0.72:
            op = rng.choice(multi)
        else:
            op = rng.choice(ops)
        if not allow_frame and op in ("frame_bury", "frame_dig", "proto"):
            continue
        edge = None
        if op in ("dig", "cover", "uncover", "bury", "popn", "dupn"):
            edge = rng.choice([0, 1, 1, 2, 3, 5]) if op != "bury" else rng.choice([1, 1, 2, 3, 5])
        seq.append(lines.sample(op, rng, edge=edge, radix=False))
    last = None
    if rng.random() < 0.25:
        k = rng.randint(1, 4)
        labs = ["lbl%d" % (j + 1) for j in range(k)]
        op = rng.choice(["match", "switch", "bz", "bnz", "return", "callsub"])
        if op in ("match", "switch"):
            last = {"op": op, "text": op + " " + " ".join(labs), "imms": [("label*", labs)], "labels": labs}
        elif op == "return":
            last = {"op": op, "text": op, "imms": [], "labels": []}
        else:
            last = {"op": op, "text": op + " lbl1", "imms": [("label", "lbl1")], "labels": ["lbl1"]}
        seq.append(last)
    return seq


def check_sequence(seq, ctr, viols, construct_stack_ast, Unknown, parse_teal):
    body = ["#pragma version 8"] + [s["text"] for s in seq]
    labels = sorted(set(l for s in seq for l in s["labels"]))
    tail = [l + ":" for l in labels] + ["int 1"]
    if seq and seq[-1]["op"] == "callsub":
        tail = ["int 1", "return"] + [l + ":" for l in labels] + ["retsub"]
    src = "\n".join(body + tail) + "\n"
    try:
        with observe.Quiet():
            teal = parse_teal(src)
    except SystemExit:
        ctr["parse_exit"] += 1
        return src
    b0 = teal.bbs[0]
    full = [{"op": "#pragma", "imms": [], "text": body[0]}] + seq
    lines_in_block = [i.line for i in b0.instructions]
    # the entry block must hold the pragma and the whole straight-line sequence (plus nothing else unless no terminator)
    nseq = len(full)
    if lines_in_block[:nseq] != list(range(1, nseq + 1)):
        ctr["entry_block_shorter_than_sequence"] += 1
        nseq = min(nseq, len(lines_in_block))
    reference.taint_bottom = False
    ref_ops = reference(full[:nseq])
    construct_stack_ast.cache_clear()
    ast = construct_stack_ast(b0)
    tainted_bottom = False
    for idx in range(nseq):
        ins = b0.instructions[idx]
        s = full[idx]
        if s["op"] in ("frame_bury", "frame_dig", "proto"):
            tainted_bottom = True
        want_cells = ref_ops[idx]
        got = ast[ins].args
        ctr["instructions_checked"] += 1
        if len(got) != len(want_cells):
            viols.append({"kind": "operand-count", "key": s["op"],
                          "what": "%r: reconstructed %d operands, the AVM passes %d" % (s["text"], len(got), len(want_cells)), "src": src})
            return src
        for j, (g, c) in enumerate(zip(got, want_cells)):
            if c.tainted or (tainted_bottom and c.bottom):
                ctr["claims_skipped_frame"] += 1
                continue
            ctr["operand_claims_checked"] += 1
            if isinstance(g, Unknown):
                if c.hist:
                    viols.append({"kind": "known-operand-reported-unknown", "key": s["op"],
                                  "what": "line %d %r operand %d: reported unknown, really pushed by line(s) %s" % (
                                      idx + 1, s["text"], j, sorted(set(i + 1 for i, _ in c.hist))), "src": src})
                    return src
                continue
            prod = g.instruction.line - 1
            pos = g.ins_out_values_index
            if not c.hist:
                viols.append({"kind": "unknown-operand-attributed", "key": s["op"],
                              "what": "line %d %r operand %d comes from below the block but is attributed to line %d (%s)" % (
                                  idx + 1, s["text"], j, prod + 1, g.instruction), "src": src})
                return src
            if (prod, pos) not in c.hist:
                viols.append({"kind": "wrong-producer", "key": s["op"],
                              "what": "line %d %r operand %d attributed to line %d output %d (%s); the AVM passes a value with history %s" % (
                                  idx + 1, s["text"], j, prod + 1, pos, g.instruction, sorted((i + 1, p) for i, p in c.hist)), "src": src})
                return src
    return src


def run_batch(spec):
    common.import_tealer()
    from tealer.analyses.utils.stack_ast_builder import construct_stack_ast, UnknownStackValue
    from tealer.teal.parse_teal import parse_teal
    from tealer.teal.instructions.parse_instruction import parse_line

    rng = common.rng_for(PROP, spec["batch"], spec["seed"])
    ctr = Ctr()
    viols = []
    nontrivial = []
    out = {"violations": [], "nontrivial": [], "samples": [], "cases": 0, "inconclusive": 0, "notes": []}
    # exhaustive per-opcode pass: declared pop/push counts (public Instruction properties) and one block per opcode
    ops = list(A.OPS)
    mine = [o for i, o in enumerate(ops) if i % spec["nb"] == spec["batch"]]
    for op in mine:
        edges = [None]
        if op in ("dig", "cover", "uncover", "bury", "popn", "dupn"):
            edges = [0, 1, 2, 7, 255] if op != "bury" else [1, 2, 7, 255]
        for e in edges:
            s = lines.sample(op, rng, edge=e, radix=False)
            with observe.Quiet():
                try:
                    ins = parse_line(s["text"])
                except Exception as ex:
                    ctr["parse_line_raised"] += 1
                    continue
            imms = flat([v for _k, v in s["imms"]])
            pops, pushes = A.stack_effect(op, imms)
            ctr["stack_effects_checked"] += 1
            out["cases"] += 1
            nontrivial.append(common.h(["effect", op, e]))
            if (ins.stack_pop_size, ins.stack_push_size) != (pops, pushes):
                viols.append({"kind": "declared-stack-effect", "key": op,
                              "what": "%r declares pop %d / push %d, the AVM specification gives %d / %d" % (
                                  s["text"], ins.stack_pop_size, ins.stack_push_size, pops, pushes), "src": s["text"]})
            if op not in CONTROL and "label" not in A.OPS[op]["imm"] and "label*" not in A.OPS[op]["imm"]:
                pre = [lines.sample("int", rng, radix=False) for _ in range(rng.randint(0, pops + 1))]
                check_sequence(pre + [s, lines.sample("pop", rng), lines.sample("pop", rng)], ctr, viols, construct_stack_ast, UnknownStackValue, parse_teal)
    for _ in range(spec["n"]):
        seq = gen_sequence(rng)
        src = check_sequence(seq, ctr, viols, construct_stack_ast, UnknownStackValue, parse_teal)
        out["cases"] += 1
        opsn = [s["op"] for s in seq]
        if any(o in SHUFFLES or A.OPS[o].get("stack") for o in opsn) or any(
                (A.OPS[o]["pushes"] or 0) > 1 for o in opsn):
            ctr["sequences_with_shuffle"] += 1
            nontrivial.append(common.h(opsn))
        if len(out["samples"]) < 1 and 4 < len(seq) < 12:
            out["samples"].append({"sequence": [s["text"] for s in seq]})
    seen = {}
    for v in viols:
        v["mechanism"] = "frame-bury-declared-push" if (v["kind"] == "declared-stack-effect" and v["key"] == "frame_bury") else None
        seen.setdefault((v["kind"], v["key"]), v)
    out["violations"] = list(seen.values())[:60]
    out["nontrivial"] = nontrivial
    out["counters"] = dict(ctr)
    return out


def replay(case):
    return {"violations": [dict(case)], "cases": 1, "counters": {}}


def coverage(m, tier):
    return {
        "rule": "exhaustive pass: every opcode of the table with edge immediates (declared pop/push counts and a block around it); "
                "random pass: straight-line sequences of 1-30 instructions over the whole v1-v8 table (dig/cover/uncover/bury/"
                "popn/dupn n, pushints/pushbytess lists, match/switch/bz/bnz/callsub/return as last instruction, proto/frame ops); "
                "non-trivial = distinct opcode sequences containing a shuffle or a multi-push opcode",
        "exhaustive": True,
    }
