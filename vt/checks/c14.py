"""C14 - results depend on the input only: no history, order or hash-seed effects.

Monitor: the canonical dump (per-block contexts as sets, reported paths in order, JSON text) of a contract must be
identical (a) in fresh processes under different PYTHONHASHSEED values, (b) after k other contracts were analysed in
the same process, (c) for every order / repetition of the detectors, with the contexts unchanged by every detector
run, and (d) for every order in which `called_subroutines` (a list built from a set of objects hashed by address)
enumerates the callees.
"""
import json
import os
import random
import subprocess

from vt import common
from vt.gen import fragment, teal as T
from vt.mon import dump, observe

PROP = "C14"
ASSUMPTIONS = [
    "equality is on the canonical dump of vt/mon/dump.py: contexts compared as sets, paths and JSON text literally",
    "set-iteration orders are explored only where the code really iterates a set: PYTHONHASHSEED (string / enum hashes) and "
    "the callee list of a subroutine (object hashes), the latter permuted by a harness wrapper",
]
DECIDING_COUNTERS = ["hash_seed_runs", "history_runs", "detector_order_runs", "callee_order_runs"]
BATCH_TIMEOUT = {"quick": 900, "thorough": 3000}


class Ctr(dict):
    def __missing__(self, k):
        return 0


def gen_call_lattice(rng):
    return fragment.call_lattice(rng)


def plan(tier, seed, scale=1.0):
    nb = 32
    per = max(2, int((4 if tier == "quick" else 24) * scale))
    return [{"batch": b, "n": per, "seed": seed, "tier": tier} for b in range(nb)]


def sub_dump(src, hashseed, shuffle=None):
    env = dict(os.environ)
    env["PYTHONHASHSEED"] = str(hashseed)
    env["PYTHONDONTWRITEBYTECODE"] = "1"
    p = subprocess.run([common.PY, "-m", "vt.mon.dump"], input=json.dumps({"src": src, "shuffle": shuffle}),
                       capture_output=True, text=True, timeout=600, env=env, cwd=common.VERIF_ROOT)
    for line in reversed(p.stdout.splitlines()):
        if line.startswith("DUMP "):
            return json.loads(line[5:])
    return {"error": "no dump: " + p.stderr[-300:]}


def sub_dump_many(srcs, hashseed, reverse=False):
    """One fresh process (given PYTHONHASHSEED) analysing the sources in the given order."""
    env = dict(os.environ)
    env["PYTHONHASHSEED"] = str(hashseed)
    env["PYTHONDONTWRITEBYTECODE"] = "1"
    order = list(reversed(srcs)) if reverse else list(srcs)
    p = subprocess.run([common.PY, "-m", "vt.mon.dump"], input=json.dumps({"srcs": order, "shuffle": None}),
                       capture_output=True, text=True, timeout=2400, env=env, cwd=common.VERIF_ROOT)
    for line in reversed(p.stdout.splitlines()):
        if line.startswith("DUMP "):
            res = json.loads(line[5:])
            return list(reversed(res)) if reverse else res
    return [{"error": "no dump: " + p.stderr[-300:]} for _ in srcs]


def diff(a, b):
    """First difference between two dumps, as a short string (None if equal)."""
    if a == b:
        return None
    if "error" in a or "error" in b:
        return "error: %s / %s" % (a.get("error"), b.get("error"))
    for ln in sorted(set(a["contexts"]) | set(b["contexts"]), key=int):
        ca, cb = a["contexts"].get(ln), b["contexts"].get(ln)
        if ca != cb:
            if ca is None or cb is None:
                return "block at line %s present in one dump only" % ln
            for k in ca:
                if ca[k] != cb.get(k):
                    sa, sb = json.dumps(ca[k])[:160], json.dumps(cb.get(k))[:160]
                    return "context %s of block at line %s: %s vs %s" % (k, ln, sa, sb)
    for d in a["detectors"]:
        if a["detectors"][d] != b["detectors"].get(d):
            x, y = a["detectors"][d], b["detectors"].get(d, {})
            if x.get("paths") != y.get("paths"):
                return "detector %s paths %s vs %s" % (d, str(x.get("paths"))[:120], str(y.get("paths"))[:120])
            return "detector %s JSON text differs" % d
    return "dumps differ"


def one_program(src, others, rng, ctr, viols, tier, base=None, seed_dumps=None):
    """base: dump of src from a fresh process (PYTHONHASHSEED=0, analysed first);
    seed_dumps: {hashseed: dump of src in a fresh process with that seed (other programs analysed before/after it)}."""
    if base is None:
        base = sub_dump(src, 0)
    if "error" in base:
        ctr["baseline_error"] += 1
        return False
    for hs, dmp in sorted((seed_dumps or {}).items()):
        ctr["hash_seed_runs"] += 1
        d = diff(base, dmp)
        if d:
            viols.append(("hash-seed", "fresh process with PYTHONHASHSEED=%s vs 0: %s" % (hs, d)))
            break
    # callee enumeration orders: permuted in this process by wrapping Subroutine.called_subroutines
    from tealer.teal.subroutine import Subroutine
    orig_prop = Subroutine.called_subroutines
    try:
        for sh in range(5 if tier == "quick" else 16):
            rnd = random.Random(sh)

            def shuffled(self, _o=orig_prop.fget, _r=rnd, _rev=(sh == 0)):
                l = sorted(_o(self), key=lambda x: x.name)
                if _rev:
                    l.reverse()
                else:
                    _r.shuffle(l)
                return l

            Subroutine.called_subroutines = property(shuffled)
            ctr["callee_order_runs"] += 1
            d = diff(base, dump.full(src))
            if d:
                viols.append(("callee-order", "callee enumeration order #%d vs natural: %s" % (sh, d)))
                break
    finally:
        Subroutine.called_subroutines = orig_prop
    # history: analyse k other contracts first, in this process
    for k in (1, 3):
        for o in others[:k]:
            try:
                dump.full(o)
            except Exception:
                pass
        ctr["history_runs"] += 1
        d = diff(base, dump.full(src))
        if d:
            viols.append(("history", "after %d other contracts in the same process: %s" % (k, d)))
            break
    # detector orders and repetitions; contexts must not change
    for _ in range(2 if tier == "quick" else 4):
        order = list(observe.PATH_DETECTORS)
        rng.shuffle(order)
        obs = observe.analyse(src)
        c0 = dump.contexts(obs)
        res, after = dump.detectors(obs, order, repeat=2)
        ctr["detector_order_runs"] += 1
        for name, c in after:
            if c != c0:
                viols.append(("detector-changes-contexts", "contexts differ after running %s (order %s)" % (name, order)))
                break
        for name, r in res.items():
            if r.get("differs_between_repetitions"):
                viols.append(("detector-repetition", "%s gives different results when run twice" % name))
            b = base["detectors"][name]
            if r["paths"] != b["paths"] or r["json"] != b["json"]:
                viols.append(("detector-order", "%s in order %s: %s vs baseline %s" % (name, order, str(r["paths"])[:120], str(b["paths"])[:120])))
                break
    return True


def run_batch(spec):
    common.import_tealer()
    rng = common.rng_for(PROP, spec["batch"], spec["seed"])
    ctr = Ctr()
    out = {"violations": [], "nontrivial": [], "samples": [], "cases": 0, "inconclusive": 0, "notes": []}
    allv = []
    progs = []
    for n in range(spec["n"]):
        w = rng.random()
        if w < 0.5:
            c = gen_call_lattice(rng)
        elif w < 0.7:
            c = fragment.generate(rng, {"max_subs": 5, "max_stmts": 3, "max_depth": 2, "loops": False, "switch": False,
                                        "weights": {"call": 12, "ret": 4}})
        else:
            c = fragment.generate(rng, {"max_subs": 4, "max_stmts": 3, "recursion": rng.random() < 0.2})
        src, _ = T.render(c["prog"], c["version"])
        # every program of a batch is analysed dozens of times (hash seeds, histories, orders): keep only programs whose
        # analysis + all detectors take a few seconds; an expensive one (path explosion) is skipped and counted
        import signal
        import time as _time

        class _Slow(BaseException):
            pass

        def _al(*_a):
            raise _Slow()

        signal.signal(signal.SIGALRM, _al)
        signal.alarm(12)
        try:
            _t0 = _time.time()
            dump.full(src)
            ctr["precheck_seconds_max"] = max(ctr["precheck_seconds_max"], int(_time.time() - _t0))
        except _Slow:
            ctr["programs_skipped_too_expensive"] += 1
            continue
        except Exception:
            pass        # a tealer exception is C17's subject; the perturbation runs will see it again
        finally:
            signal.alarm(0)
        common.release_tealer_caches()
        progs.append((c, src))
    srcs = [s_ for _c, s_ in progs]
    if not progs:
        out["counters"] = dict(ctr)
        return out
    seeds = [1, 2, 3] if spec["tier"] == "quick" else list(range(1, 17))
    try:
        # baselines: each program alone would cost one process each; instead the batch is analysed in one fresh
        # process per hash seed, in forward order for seed 0 (baseline) and alternating orders for the others, so
        # that every program is also seen after a different history
        base_all = sub_dump_many(srcs, 0)
        per_seed = {hs: sub_dump_many(srcs, hs, reverse=(hs % 2 == 1)) for hs in seeds}
    except subprocess.TimeoutExpired:
        out["inconclusive"] += len(progs)
        out["counters"] = dict(ctr)
        return out
    for n, (c, src) in enumerate(progs):
        others = [s_ for k, s_ in enumerate(srcs) if k != n][:3] or [src]
        viols = []
        signal.alarm(600)
        try:
            ok = one_program(src, others, rng, ctr, viols, spec["tier"], base=base_all[n],
                             seed_dumps={hs: per_seed[hs][n] for hs in seeds})
        except (subprocess.TimeoutExpired, _Slow):
            out["inconclusive"] += 1
            ctr["program_watchdog_fired"] += 1
            continue
        except Exception as e:
            import traceback
            out["inconclusive"] += 1
            if len(out["notes"]) < 2:
                out["notes"].append({"raised": traceback.format_exc()[-500:], "src": src[:1500]})
            continue
        finally:
            signal.alarm(0)
        common.release_tealer_caches()
        if not ok:
            out["inconclusive"] += 1
            continue
        out["cases"] += 1
        nsubs = sum(1 for i in c["prog"] if i[0] == "callsub")
        for pert in ("hash", "history", "order", "callee"):
            if nsubs >= 2:
                out["nontrivial"].append(common.h([src, pert]))
        for kind, what in viols:
            allv.append({"kind": kind, "key": kind, "what": what, "src": src, "prog": c["prog"], "version": c["version"], "mechanism": None})
        if len(out["samples"]) < 1 and len(src) < 600:
            out["samples"].append({"src": src, "perturbations": ["PYTHONHASHSEED sweep (quick 0..3, thorough 0..16)", "callee orders", "history k=1,3", "detector orders, each detector run twice"]})
    seen = {}
    for v in allv:
        seen.setdefault((v["kind"], common.h(v["src"])), v)
    out["violations"] = list(seen.values())[:30]
    out["counters"] = dict(ctr)
    return out


def replay(case):
    common.import_tealer()
    ctr = Ctr()
    viols = []
    one_program(case["src"], [], random.Random(0), ctr, viols, "quick")
    return {"violations": [{"kind": k, "key": k, "what": w, "mechanism": None} for k, w in viols], "cases": 1, "counters": dict(ctr)}


def coverage(m, tier):
    c = m["counters"]
    return {
        "rule": "fragment programs (up to 4 subroutines) x {PYTHONHASHSEED sweep in fresh processes, callee-enumeration orders, "
                "in-process histories, detector permutations with repetition}; non-trivial = distinct (program, perturbation) with at "
                "least two call sites",
        "evaluations": sum(c.get(k, 0) for k in DECIDING_COUNTERS),
    }
