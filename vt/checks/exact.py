"""Exactness monitors built on the abstract walk oracle (filled in by vt/ref/walks.py)."""


def evaluate_sizes(case, ctr, rng):
    return [], []


def evaluate_addr(case, ctr, rng):
    return [], []


def evaluate_fee(case, ctr, rng):
    return [], []
