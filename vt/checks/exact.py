"""Exactness monitors built on the abstract walk oracle (vt/ref/walks.py).

Only programs of the direct-check fragment are judged (no stack shuffles inside conditions, no conditions carried
across blocks, no recursion); other programs are skipped and counted.
"""
from vt.gen import inputs
from vt.ref import walks

U64 = (1 << 64) - 1
NON_DIRECT = {"shuffle", "carry", "recursion", "unresolved_intc"}


def eligible(case):
    return not (set(case.features) & NON_DIRECT)


def oracle(case):
    if getattr(case, "_walks", None) is None:
        P = walks.Program(case.prog)
        case._walks = None if P.is_recursive() else P
        case._walk_cache = {}
    return case._walks


def admitted(case, keyname, v, mode):
    P = oracle(case)
    ck = (keyname, v, mode)
    if ck not in case._walk_cache:
        case._walk_cache[ck] = P.admitted(walks.Key(keyname), v, mode)
    return case._walk_cache[ck]


def exit_pc(b):
    return b.exit_instr.line - 2


def real_blocks(case):
    return [b for b in case.function.blocks if b.entry_instr.line < (1 << 16) and exit_pc(b) >= 0]


def block_in_multi_site_sub(case, b):
    P = oracle(case)
    return P.sub_of.get(exit_pc(b)) in P.multi_site_subs()


# ---------------------------------------------------------------- C06: GroupSize / GroupIndex exactness

def size_index_sets(case, mode):
    """{block first line: (sizes, indices)} per the oracle, coupled by 'index only with a larger size'."""
    out = {}
    for b in real_blocks(case):
        pc = exit_pc(b)
        sizes = set(v for v in range(1, 17) if pc in admitted(case, "GroupSize", v, mode))
        idx = set(v for v in range(0, 16) if pc in admitted(case, "GroupIndex", v, mode))
        idx &= set(range(max(sizes, default=0)))
        out[b.entry_instr.line] = (sizes, idx)
    return out


def evaluate_sizes(case, ctr, rng):
    viols, nt = [], []
    if not eligible(case) or oracle(case) is None:
        ctr["exactness_skipped_not_direct"] += 1
        return viols, nt
    try:
        valid = size_index_sets(case, "valid")
        ci = size_index_sets(case, "ci")
    except OverflowError:
        ctr["exactness_skipped_state_space"] += 1
        return viols, nt
    ctr["exactness_programs"] += 1
    fn = case.function
    for b in real_blocks(case):
        ln = b.entry_instr.line
        ctx = fn.transaction_context(b)
        ts, ti = set(ctx.group_sizes), set(ctx.group_indices)
        vs, vi = valid[ln]
        us, ui = ci[ln] if block_in_multi_site_sub(case, b) else valid[ln]
        ctr["exactness_blocks"] += 1
        if vs - ts:
            viols.append({"kind": "size-admitted-but-not-listed", "key": ln, "ckey": "size-exact",
                          "what": "block at line %d: sizes %s lie on an accepting walk (direct checks read exactly, rest free) but group_sizes=%s" % (ln, sorted(vs - ts), sorted(ts))})
        if vi - ti:
            viols.append({"kind": "index-admitted-but-not-listed", "key": ln, "ckey": "index-exact",
                          "what": "block at line %d: indices %s lie on an accepting walk but group_indices=%s" % (ln, sorted(vi - ti), sorted(ti))})
        if ts - us:
            viols.append({"kind": "size-listed-but-not-admitted", "key": ln, "ckey": "size-exact",
                          "what": "block at line %d: group_sizes lists %s which no accepting walk through the block admits (exact set %s)" % (ln, sorted(ts - us), sorted(us))})
        if ti - ui:
            viols.append({"kind": "index-listed-but-not-admitted", "key": ln, "ckey": "index-exact",
                          "what": "block at line %d: group_indices lists %s which no accepting walk through the block admits (exact set %s)" % (ln, sorted(ti - ui), sorted(ui))})
    return viols, nt


# ---------------------------------------------------------------- C08: converse for address fields

ADDR_FIELDS = {"RekeyTo": "rekeyto", "CloseRemainderTo": "closeto", "AssetCloseTo": "assetcloseto", "Sender": "sender"}


def evaluate_addr(case, ctr, rng):
    viols, nt = [], []
    if not eligible(case) or oracle(case) is None or "gtxn" in case.features or "gtxns_abs" in case.features or "gtxns_rel" in case.features:
        ctr["converse_skipped"] += 1
        return viols, nt
    fn = case.function
    try:
        for field, attr in ADDR_FIELDS.items():
            if field not in case.reads.self_fields:
                continue
            for b in real_blocks(case):
                mode = "ci" if block_in_multi_site_sub(case, b) else "valid"
                pc = exit_pc(b)
                att = pc in admitted(case, field, ("A", "ATTACKER"), mode)
                some = att or any(pc in admitted(case, field, ("A", a), mode) for a in ["ZERO", "CREATOR"] + sorted(case.reads.lit_addrs))
                ctr["converse_blocks"] += 1
                av = getattr(fn.transaction_context(b), attr)
                if some and not att:
                    nt.append("conv:%s:%d:%s" % (hash(case.src) & 0xffffff, b.entry_instr.line, field))
                    if av.any_addr:
                        viols.append({"kind": "constrained-field-reported-any", "key": (b.entry_instr.line, field), "ckey": field + "-converse",
                                      "what": "block at line %d: %s is equality-constrained on every accepting walk through the block (attacker address not admitted) but reported as any address" % (b.entry_instr.line, field)})
    except OverflowError:
        ctr["converse_skipped_state_space"] += 1
    return viols, nt


# ---------------------------------------------------------------- C09: clause 2 (a finite bound needs a constraining comparison)

def fee_reps(case):
    consts = set()
    for c in case.reads.self_fields.get("Fee", set()):
        consts.add(c)
    return inputs.uint_reps(consts, extra=(272000, 272001, U64), limit=24)


def evaluate_fee(case, ctr, rng):
    viols, nt = [], []
    if not eligible(case) or oracle(case) is None or any(f in case.features for f in ("gtxn", "gtxns_abs", "gtxns_rel")):
        ctr["fee_clause2_skipped"] += 1
        return viols, nt
    fn = case.function
    try:
        for b in real_blocks(case):
            ctx = fn.transaction_context(b)
            pc = exit_pc(b)
            ctr["fee_clause2_blocks"] += 1
            credited = ctx.max_fee_unknown or ctx.max_fee <= 272000
            # "constrains every accepting path through it": real paths, i.e. matched returns
            if credited and pc in admitted(case, "Fee", U64, "valid"):
                # is the block on an accepting walk at all? (a block on no accepting walk legitimately has bound 0)
                viols.append({"kind": "bound-without-constraint", "key": b.entry_instr.line, "ckey": "fee-clause2",
                              "what": "block at line %d is credited with max_fee=%s (unknown=%s) although an accepting walk through it admits Fee = 2^64-1 (no Fee comparison constrains it)" % (
                                  b.entry_instr.line, ctx.max_fee, ctx.max_fee_unknown)})
            # soundness at the abstract level, over representatives
            if not ctx.max_fee_unknown:
                for f in fee_reps(case):
                    if f > ctx.max_fee and pc in admitted(case, "Fee", f, "valid"):
                        viols.append({"kind": "fee-admitted-above-bound", "key": b.entry_instr.line, "ckey": "fee-exact",
                                      "what": "block at line %d: Fee %d lies on an accepting walk (direct checks exact, rest free) but max_fee=%d" % (b.entry_instr.line, f, ctx.max_fee)})
                        break
    except OverflowError:
        ctr["fee_clause2_skipped_state_space"] += 1
    return viols, nt
