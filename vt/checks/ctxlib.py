"""Admission predicates: does a tealer BlockTransactionContext admit a concrete transaction's values?

Used by C06-C10, C12.  A value WILD means the program never read the field, so the execution exists
for every protocol-consistent value of it; the obligations below are then stated for the value a
detector cares about (attacker address, fee 2^64-1, each detector-relevant kind).
"""
from vt.checks.frag import WILD, val, kind_of, U64
from vt.gen.teal import ATOM_TO_ADDR_TEXT

ADDR_CTX = {"RekeyTo": "rekeyto", "CloseRemainderTo": "closeto", "AssetCloseTo": "assetcloseto", "Sender": "sender"}
CREATOR_MARK = "CREATOR_ADDRESS"


def type_names(ctx):
    return set(str(t) for t in ctx.transaction_types)


def needed_type_labels(t):
    """Detector-relevant kind labels the context must contain for transaction t."""
    k = kind_of(t)
    if k is None:
        return ["Pay", "Axfer", "ApplUpdateApplication", "ApplDeleteApplication"]
    ty, oc, appid = k
    if ty == 1:
        return ["Pay"]
    if ty == 4:
        return ["Axfer"]
    if ty == 6 and appid != 0 and oc == 4:
        return ["ApplUpdateApplication"]
    if ty == 6 and appid != 0 and oc == 5:
        return ["ApplDeleteApplication"]
    return []


def missing_types(ctx, t):
    have = type_names(ctx)
    return [l for l in needed_type_labels(t) if l not in have]


def addr_value_possible(t, field):
    """Non-zero address value(s) the field has / may have in this execution: list of atoms."""
    v = val(t, field)
    k = kind_of(t)
    if field == "CloseRemainderTo" and k is not None and k[0] != 1:
        return []
    if field == "AssetCloseTo" and k is not None and k[0] != 4:
        return []
    if v == WILD:
        return ["ATTACKER"]
    if v == "ZERO":
        return []
    return [v]


def addr_admits(av, atom):
    if av.any_addr:
        return True
    if atom == "ATTACKER":
        return False
    if atom == "CREATOR":
        return CREATOR_MARK in av.possible_addr
    return ATOM_TO_ADDR_TEXT.get(atom, atom) in av.possible_addr


def missing_addrs(ctx, t):
    out = []
    for field, attr in ADDR_CTX.items():
        av = getattr(ctx, attr)
        for atom in addr_value_possible(t, field):
            if not addr_admits(av, atom):
                out.append((field, atom, {"any": av.any_addr, "no": av.no_addr, "addrs": list(av.possible_addr)}))
    return out


def fee_excess(ctx, t):
    """None if admitted, else (fee, bound)."""
    if ctx.max_fee_unknown:
        return None
    f = val(t, "Fee")
    f = U64 if f == WILD else f
    if f > ctx.max_fee:
        return (f, ctx.max_fee)
    return None
