"""Boilerplate of a fragment-based check: plan / run_batch / replay / coverage around an `evaluate(case, ctr, rng)`."""
import random
import traceback

from vt import common
from vt.checks import frag
from vt.gen import teal as T


class CaseTimeout(BaseException):
    pass


class FragCheck:
    def __init__(self, prop, evaluate, profiles, sizes, rule, classify=None, cap=(900, 1500), pair_mode="reps",
                 want_execs=True, extra_cases=None):
        self.prop = prop
        self.evaluate = evaluate
        self.profiles = profiles      # list of (weight, profile dict, name)
        self.sizes = sizes            # {"quick": (batches, per), "thorough": (batches, per)}
        self.rule = rule
        self.classify = classify
        self.cap = cap
        self.pair_mode = pair_mode
        self.want_execs = want_execs
        self.extra_cases = extra_cases  # callable(rng) -> list of (prog, version, features) run in batch 0
        self.case_timeout = 45

    def plan(self, tier, seed, scale=1.0):
        nb, per = self.sizes[tier]
        per = max(4, int(per * scale))
        return [{"batch": b, "n": per, "seed": seed, "tier": tier} for b in range(nb)]

    def pick_profile(self, rng):
        tot = sum(w for w, _p, _n in self.profiles)
        x = rng.random() * tot
        for w, p, n in self.profiles:
            x -= w
            if x <= 0:
                return p, n
        return self.profiles[-1][1], self.profiles[-1][2]

    def one(self, prog, version, feats, rng, ctr, out, tier, stratum):
        """One case under a wall-clock watchdog; a firing watchdog makes the case inconclusive, never a violation."""
        import signal

        def _alarm(*_a):
            raise CaseTimeout()

        signal.signal(signal.SIGALRM, _alarm)
        signal.alarm(self.case_timeout)
        try:
            self._one(prog, version, feats, rng, ctr, out, tier, stratum)
        except CaseTimeout:
            ctr["case_watchdog_fired"] += 1
            out["inconclusive"] += 1
            if len(out["notes"]) < 3:
                src, _ = T.render(prog, version)
                out["notes"].append({"watchdog": "case exceeded %ds" % self.case_timeout, "src": src[:3000]})
        finally:
            signal.alarm(0)
        self._since_release = getattr(self, "_since_release", 0) + 1
        if self._since_release >= 8:
            self._since_release = 0
            common.release_tealer_caches()

    def _one(self, prog, version, feats, rng, ctr, out, tier, stratum):
        cap = self.cap[0] if tier == "quick" else self.cap[1]
        try:
            case = frag.build(prog, version, rng, cap=cap, pair_mode=self.pair_mode,
                              want_execs=self.want_execs, features=feats)
        except CaseTimeout:
            raise
        except RecursionError:
            ctr["recursion_error"] += 1
            out["inconclusive"] += 1
            return
        except Exception as e:
            ctr["tealer_raised"] += 1
            ctr["tealer_raised_" + type(e).__name__] += 1
            out["inconclusive"] += 1
            if len(out["notes"]) < 3:
                src, _ = T.render(prog, version)
                out["notes"].append({"tealer_raised": traceback.format_exc()[-400:], "src": src})
            return
        out["cases"] += 1
        ctr["programs"] += 1
        ctr["programs_" + stratum] += 1
        ctr["executions"] += case.total_execs
        ctr["accepting_executions"] += len(case.execs)
        if case.execs:
            ctr["programs_with_accepting_execution"] += 1
        ctr["blocks_analysed"] += len(case.function.blocks)
        viols, nontrivial = self.evaluate(case, ctr, rng)
        out["nontrivial"].extend(nontrivial)
        seen = set()
        quota = {}
        for v in viols:
            key = (v["kind"], v.get("key"))
            if key in seen:
                continue
            # a few per (kind, governed key), so that many observations of one (possibly listed) mechanism
            # cannot crowd out a different violation of the same program
            qk = (v["kind"], str(v.get("ckey")))
            if quota.get(qk, 0) >= 2 or len(seen) >= 16:
                continue
            quota[qk] = quota.get(qk, 0) + 1
            seen.add(key)
            v["src"] = case.src
            v["prog"] = case.prog
            v["version"] = case.version
            v["features"] = case.features
            v["stratum"] = stratum
            if self.classify:
                try:
                    self._reeval_features = case.features
                    v["mechanism"] = self.classify(v, case, self.reeval)
                except Exception:
                    v["mechanism"] = None
                    v["classifier_error"] = traceback.format_exc()[-300:]
            out["violations"].append(v)
        if len(out["samples"]) < 2 and (case.execs or not self.want_execs) and len(case.src) < 900:
            out["samples"].append({"src": case.src, "features": case.features,
                                   "accepting_executions": len(case.execs),
                                   "example_execution": frag.slim_exec(case.execs[0]) if case.execs else None})

    def reeval(self, prog, version, exec_slim):
        """Re-run tealer and the check on `prog` for one given input; returns {(kind, ckey)} of violations."""
        rng = random.Random(0)
        if exec_slim is None:
            case = frag.build(prog, version, rng, want_execs=False)
            case.features = list(getattr(self, "_reeval_features", []))
        else:
            case = frag.build(prog, version, rng, want_execs=True,
                              forced_inputs=[(exec_slim["group"], exec_slim["own"])])
            if not case.execs:
                return None  # the rewrite did not preserve acceptance of the witness: not a valid counterfactual
        viols, _ = self.evaluate(case, frag.Ctr(), rng)
        return set((v["kind"], v.get("ckey")) for v in viols)

    def run_batch(self, spec):
        common.import_tealer()
        rng = common.rng_for(self.prop, spec["batch"], spec["seed"])
        ctr = frag.Ctr()
        out = {"violations": [], "nontrivial": [], "samples": [], "cases": 0, "inconclusive": 0, "notes": []}
        if spec["batch"] == 0 and self.extra_cases:
            for prog, version, feats in self.extra_cases(rng):
                self.one(prog, version, feats, rng, ctr, out, spec["tier"], "handwritten")
        for _ in range(spec["n"]):
            profile, name = self.pick_profile(rng)
            prog, version, feats = frag.gen_case(rng, profile)
            self.one(prog, version, feats, rng, ctr, out, spec["tier"], name)
        out["counters"] = dict(ctr)
        return out

    def replay(self, case):
        common.import_tealer()
        rng = random.Random(0)
        ctr = frag.Ctr()
        out = {"violations": [], "nontrivial": [], "samples": [], "cases": 0, "inconclusive": 0, "notes": []}
        prog = [tuple(i) for i in case["prog"]]
        self.one(prog, case["version"], case.get("features", []), rng, ctr, out, "thorough", "replay")
        out["counters"] = dict(ctr)
        return out

    def coverage(self, m, tier):
        return {"rule": self.rule, "programs": m["counters"].get("programs", 0)}

    def export(self, g):
        g["plan"] = self.plan
        g["run_batch"] = self.run_batch
        g["replay"] = self.replay
        g["coverage"] = self.coverage
