"""C10 - cross-transaction (gtxn) contexts are sound for other group members.

Monitor: for every accepting execution (group G, own index j) and every block b it visits:
  absolute_context(i) admits the values of G[i] for every member i,
  gtxn_context(j) admits the governed transaction's own values,
  gtxn_context(i) is empty for every i that is not a possible own index at b,
  relative_context(k) admits the values of G[j+k] for every offset k inside the group.
"Admits" is the notion of C07/C08/C09 per field; a field the program never reads at that position is a wildcard.
"""
from vt import common, classify
from vt.checks import fragcheck, frag, ctxlib

PROP = "C10"
ASSUMPTIONS = [
    "reference interpreter vt/ref/avm.py decides acceptance; every member's fields that the program reads are enumerated "
    "independently, unread fields are wildcards",
    "'i is impossible' is taken from the block's own group_indices (its soundness is C06's subject)",
]
DECIDING_COUNTERS = ["member_context_checks", "accepting_executions", "constrained_member_checks"]


def check_ctx(ctx, t):
    """[(ckey, detail)] for the values of transaction dict t not admitted by tail context ctx."""
    out = []
    for lab in ctxlib.missing_types(ctx, t):
        out.append((lab, "kind %s not in %s" % (lab, sorted(ctxlib.type_names(ctx))), None))
    for field, atom, info in ctxlib.missing_addrs(ctx, t):
        out.append((field, "%s=%s not admitted: %s" % (field, atom, info), atom))
    x = ctxlib.fee_excess(ctx, t)
    if x:
        out.append(("fee", "Fee %s above bound %s" % x, None))
    return out


def evaluate(case, ctr, rng):
    viols, nontrivial = [], []
    fn = case.function
    for e in case.execs:
        s, j = len(e.group), e.own
        for b in e.blocks:
            ctx = fn.transaction_context(b)
            ln = b.entry_instr.line
            for i in range(s):
                ctr["member_context_checks"] += 1
                t = e.group[i]
                if t and i != j:
                    ctr["constrained_member_checks"] += 1
                    nontrivial.append(common.h([case.src, ln, "abs", i]))
                for ckey, det, atom in check_ctx(ctx.absolute_context(i), t):
                    viols.append({"kind": "absolute-context", "key": (ln, i, ckey), "ckey": ckey, "type_label": ckey, "atom": atom,
                                  "what": "block at line %d, absolute_context(%d): %s; group member %s" % (ln, i, det, t),
                                  "exec": frag.slim_exec(e)})
            for ckey, det, atom in check_ctx(ctx.gtxn_context(j), e.group[j]):
                viols.append({"kind": "gtxn-context-own", "key": (ln, j, ckey), "ckey": ckey, "type_label": ckey, "atom": atom,
                              "what": "block at line %d, gtxn_context(%d) for own index %d: %s" % (ln, j, j, det),
                              "exec": frag.slim_exec(e)})
            for k in range(-15, 16):
                if k == 0 or not (0 <= j + k < s):
                    continue
                ctr["member_context_checks"] += 1
                t = e.group[j + k]
                if t:
                    nontrivial.append(common.h([case.src, ln, "rel", k]))
                for ckey, det, atom in check_ctx(ctx.relative_context(k), t):
                    viols.append({"kind": "relative-context", "key": (ln, k, ckey), "ckey": ckey, "type_label": ckey, "atom": atom,
                                  "what": "block at line %d, relative_context(%+d) (member %d): %s; member %s" % (ln, k, j + k, det, t),
                                  "exec": frag.slim_exec(e)})
    viols.extend(evaluate_attribution(case, ctr))
    # empty when the index is impossible
    for b in fn.blocks:
        ctx = fn.transaction_context(b)
        for i in range(16):
            if i not in ctx.group_indices:
                g = ctx.gtxn_context(i)
                ctr["impossible_index_checks"] += 1
                if g.transaction_types or not g.rekeyto.no_addr or g.rekeyto.any_addr:
                    viols.append({"kind": "gtxn-context-not-empty", "key": (b.entry_instr.line, i),
                                  "what": "block at line %d: index %d is not a possible own index (%s) but gtxn_context(%d) is not empty: types %s rekeyto %s" % (
                                      b.entry_instr.line, i, sorted(ctx.group_indices), i, sorted(map(str, g.transaction_types)),
                                      (g.rekeyto.any_addr, g.rekeyto.no_addr))})
    return viols, nontrivial


def attribution_table(rng):
    """'Reads through `gtxn i f`, `int i; gtxns f` and `txn GroupIndex; int k; +/-; gtxns f` are attributed to the right
    transaction': one unconditional check per (access form, index / offset, field); the expectation travels in a feature."""
    out = []
    checks = {"RekeyTo": [("global", "ZeroAddress"), ("==",)], "Fee": [("int", 1000), ("<=",)], "TypeEnum": [("int", "pay"), ("==",)]}
    for field, tail in checks.items():
        for i in (0, 1, 2, 5, 15):
            out.append(([("gtxn", i, field)] + tail, "abs", i, field))
            out.append(([("int", i), ("gtxns", field)] + tail, "abs", i, field))
            out.append(([("pushint", i), ("gtxns", field)] + tail, "abs", i, field))
        for k in (1, 2, 3, 15):
            out.append(([("txn", "GroupIndex"), ("int", k), ("+",), ("gtxns", field)] + tail, "rel", k, field))
            out.append(([("int", k), ("txn", "GroupIndex"), ("+",), ("gtxns", field)] + tail, "rel", k, field))
            out.append(([("txn", "GroupIndex"), ("pushint", k), ("-",), ("gtxns", field)] + tail, "rel", -k, field))
    # index arithmetic that is none of the three forms: the member is an absolute one (a+b, a+scratch=a), so NO offset
    # context and no other absolute context may pick the check up
    for field in ("RekeyTo", "Fee"):
        tail = checks[field]
        for a, b in ((1, 1), (2, 0), (0, 1)):
            out.append(([("int", a), ("int", b), ("+",), ("gtxns", field)] + tail, "only-abs", a + b, field))
            out.append(([("int", a + b), ("load", 250), ("+",), ("gtxns", field)] + tail, "only-abs", a + b, field))
            out.append(([("load", 250), ("int", a + b), ("+",), ("gtxns", field)] + tail, "only-abs", a + b, field))
    cases = []
    for cond, fam, idx, field in out:
        for consumer in ("assert", "bz"):
            if consumer == "assert":
                prog = cond + [("assert",), ("int", 1), ("return",)]
                leaf = len(prog) - 2
            else:
                prog = cond + [("bz", "FAIL"), ("int", 1), ("return",), ("label", "FAIL"), ("err",)]
                leaf = len(cond) + 1
            cases.append((prog, 6, ["attribution_case", "expect_attr=%s:%d:%s@%d" % (fam, idx, field, leaf + 2)]))
    rng.shuffle(cases)
    return cases[:200]


def evaluate_attribution(case, ctr):
    viols = []
    for f in case.features:
        if not str(f).startswith("expect_attr="):
            continue
        spec, line = f.split("=", 1)[1].split("@")
        fam, idx, field = spec.split(":")
        idx, line = int(idx), int(line)
        for b in case.function.blocks:
            if not (b.entry_instr.line <= line <= b.exit_instr.line):
                continue
            ctx = case.function.transaction_context(b)
            if fam == "only-abs":
                ctr["attribution_negative_cases"] += 1
                others = [("offset %+d" % k, ctx.relative_context(k)) for k in range(-15, 16) if k != 0]
                others += [("absolute index %d" % i, ctx.absolute_context(i)) for i in range(16) if i != idx]
                for nm, sub in others:
                    hit = (not sub.rekeyto.any_addr) if field == "RekeyTo" else (sub.max_fee_unknown or sub.max_fee < frag.U64)
                    if hit:
                        viols.append({"kind": "read-attributed-to-wrong-member", "key": (fam, idx, field, nm), "ckey": "attribution",
                                      "what": "a check of %s of the member at absolute index %d (index computed by arithmetic that is none of the "
                                              "recognised forms) is recorded for the member at %s (block at line %d)" % (field, idx, nm, line)})
                        break
                continue
            sub = ctx.absolute_context(idx) if fam == "abs" else ctx.relative_context(idx)
            ctr["attribution_cases"] += 1
            if field == "RekeyTo":
                ok = sub.rekeyto.no_addr and not sub.rekeyto.any_addr and not sub.rekeyto.possible_addr
                got = (sub.rekeyto.any_addr, sub.rekeyto.no_addr, list(sub.rekeyto.possible_addr))
            elif field == "Fee":
                ok = (not sub.max_fee_unknown) and sub.max_fee == 1000
                got = ("unknown" if sub.max_fee_unknown else sub.max_fee)
            else:
                got = sorted(str(t) for t in sub.transaction_types)
                ok = len(got) == 1 and "Pay" in got[0]
            if not ok:
                viols.append({"kind": "read-not-attributed", "key": (fam, idx, field), "ckey": "attribution",
                              "what": "an unconditional check of %s read through the %s %s %+d is not recorded for that member at the accepting block (line %d): %s" % (
                                  field, "absolute index" if fam == "abs" else "offset", "", idx, line, got)})
    return viols


_P = {"gtxn": 0.7, "keys": ["Addr", "Addr", "Fee", "Type", "OC", "GroupIndex", "GroupSize"]}
_c = fragcheck.FragCheck(
    PROP, evaluate,
    profiles=[(3, dict(_P), "mixed"), (2, dict(_P, direct_only=True), "direct"),
              (1, dict(_P, max_subs=4, max_depth=4), "deep"),
              (2, dict(_P, max_subs=4, max_stmts=3, weights={"call": 8, "ret": 3, "doloop": 2}), "call-heavy"),
              (2, dict(_P, gtxn=0.9, max_subs=1, max_stmts=3, max_depth=2, direct_only=True, keys=["Addr", "Fee", "Type", "OC"]), "small-cross-reads")],
    sizes={"quick": (32, 12), "thorough": (160, 50)},
    rule="fragment programs reading up to three other members through `gtxn i`, `int i; gtxns` and `txn GroupIndex; int k; +/-; "
         "gtxns` (both operand orders of +, index beyond the group) x groups with independent valuations per member; non-trivial "
         "= distinct (program, block, family, index/offset) for a member whose fields the program reads",
    classify=classify.fragment, cap=(500, 1200), extra_cases=attribution_table,
)
_c.export(globals())
