"""C02 - every reported path is a genuine, unvalidated accepting path.

Monitor: every path in ExecutionPaths.paths of every detector is replayed with an explicit call stack against
the reference graph (R1 start, R2 edges + matched returns, R3 terminal block, R4 no revisit within an activation,
R5 no block where the dangerous value is excluded - nine predicates restated independently over the observed
contexts, R6 no duplicates) and its renderings (short notation, JSON blocks, terminal text, file numbering) are
compared with the block sequence.
"""
import glob
import os
import re
import signal

from vt import common, classify
from vt.checks import fragcheck, frag
from vt.gen import teal as T
from vt.mon import observe
from vt.ref.cfg import RefCFG

PROP = "C02"
ASSUMPTIONS = [
    "reference successor relation vt/ref/cfg.py for generated programs; for the repository's .teal corpus the step "
    "relation is tealer's own next lists (validated by C04 on generated layouts)",
    "exclusion predicates of the nine detectors restated from their documentation in this file",
]
DECIDING_COUNTERS = ["paths_checked", "path_steps_checked", "call_return_pairs_replayed"]
MAXC = 272000


def excluded(det, ctx):
    """Independent statement: does this context exclude detector det's dangerous value?"""
    names = set(str(t) for t in ctx.transaction_types)
    if det == "rekey-to":
        return not ctx.rekeyto.any_addr
    if det == "can-close-account":
        return not (ctx.closeto.any_addr and "Pay" in names)
    if det == "can-close-asset":
        return not (ctx.assetcloseto.any_addr and "Axfer" in names)
    if det == "missing-fee-check":
        return bool(ctx.max_fee_unknown) or ctx.max_fee <= MAXC
    if det == "is-updatable":
        return "ApplUpdateApplication" not in names
    if det == "is-deletable":
        return "ApplDeleteApplication" not in names
    if det == "unprotected-updatable":
        return not ("ApplUpdateApplication" in names and ctx.sender.any_addr)
    if det == "unprotected-deletable":
        return not ("ApplDeleteApplication" in names and ctx.sender.any_addr)
    if det == "group-size-check":
        if getattr(ctx, "is_gtxn_context", False):
            return False
        return 16 not in ctx.group_sizes
    raise ValueError(det)


def validated_in_block(det, fn, b):
    ctx = fn.transaction_context(b)
    if excluded(det, ctx):
        return True
    # "checked through gtxn i for every possible own index i"
    for i in ctx.group_indices:
        if not excluded(det, ctx.gtxn_context(i)):
            return False
    return True


def norm(s):
    return " ".join(s.split("//")[0].split())


def check_paths(fn, teal, det, out, ref, src_lines, ctr, viols, nontrivial, src_key):
    paths = observe.paths_of(out)
    fblocks = set(id(b) for b in fn.blocks)
    seen = set()
    last_k = (ref.n - 1) if ref else None
    for pi, path in enumerate(paths):
        ctr["paths_checked"] += 1
        ids = tuple(id(b) for b in path)
        tag = "%s path %s" % (det, [b.idx for b in path])
        if ids in seen:
            viols.append({"kind": "duplicate-path", "key": det, "what": tag + " reported twice"})
        seen.add(ids)
        if not path or path[0] is not fn.entry:
            viols.append({"kind": "bad-start", "key": det, "what": tag + " does not start at the function entry"})
            continue
        if any(id(b) not in fblocks for b in path):
            viols.append({"kind": "foreign-block", "key": det, "what": tag + " contains a block that is not a block of the function"})
            continue
        stack = []          # callsub blocks
        act = [set()]       # visited per activation
        bad = None
        has_call = False
        for k, b in enumerate(path):
            if id(b) in act[-1]:
                bad = ("revisit", "%s revisits block %d within one activation" % (tag, b.idx))
                break
            act[-1].add(id(b))
            if validated_in_block(det, fn, b):
                bad = ("excluded-block", "%s contains block %d at which the dangerous value is excluded" % (tag, b.idx))
                break
            if k + 1 == len(path):
                break
            nxt = path[k + 1]
            ctr["path_steps_checked"] += 1
            last = b.exit_instr
            op = str(last).split()[0] if str(last) else ""
            if b.is_callsub_block:
                has_call = True
                want = b.called_subroutine.entry
                if ref is not None:
                    tgt = ref.labels[ref.prog[last.line - 1][1]] + 1
                    if nxt.entry_instr.line != tgt:
                        bad = ("call-edge", "%s: after callsub at line %d comes block at line %d, callee label is at line %d" % (tag, last.line, nxt.entry_instr.line, tgt))
                        break
                if nxt is not want:
                    bad = ("call-edge", "%s: block %d does not enter the callee" % (tag, b.idx))
                    break
                stack.append(b)
                act.append(set())
            elif b.is_retsub_block:
                if not stack:
                    bad = ("return-without-call", "%s: retsub in block %d with empty call stack" % (tag, b.idx))
                    break
                c = stack.pop()
                act.pop()
                ctr["call_return_pairs_replayed"] += 1
                if ref is not None:
                    want_line = c.exit_instr.line + 1
                    if nxt.entry_instr.line != want_line:
                        bad = ("return-edge", "%s: retsub in block %d resumes at line %d, the matching callsub is at line %d" % (tag, b.idx, nxt.entry_instr.line, c.exit_instr.line))
                        break
                if nxt is not c.sub_return_point:
                    bad = ("return-edge", "%s: retsub in block %d does not resume after its own callsub (block %d)" % (tag, b.idx, c.idx))
                    break
            else:
                if ref is not None:
                    succ = set(s + 1 for s in ref.local_succ[last.line - 1])
                    if nxt.entry_instr.line not in succ:
                        bad = ("edge", "%s: step %d -> %d is not a control-flow edge (successors of line %d: %s)" % (tag, b.idx, nxt.idx, last.line, sorted(succ)))
                        break
                elif nxt not in b.next:
                    bad = ("edge", "%s: step %d -> %d is not an edge" % (tag, b.idx, nxt.idx))
                    break
        if bad is None:
            e = path[-1]
            if e.is_callsub_block or e.is_retsub_block:
                bad = ("ends-in-call", "%s ends in the middle of a subroutine call (block %d)" % (tag, e.idx))
            elif ref is not None:
                lk = e.exit_instr.line - 1
                op = ref.prog[lk][0]
                if not (op in ("return", "err") or (lk == last_k and op != "b")):
                    bad = ("non-terminal-end", "%s ends at line %d (%s) where execution cannot terminate" % (tag, lk + 1, op))
            elif e.next:
                bad = ("non-terminal-end", "%s ends in block %d which has successors" % (tag, e.idx))
        if bad:
            viols.append({"kind": bad[0], "key": det, "what": bad[1]})
        if has_call or len(path) != len(set(id(b) for b in path)):
            nontrivial.append(common.h([src_key, det, [b.idx for b in path]]))
    # renderings
    for o in out:
        j = o.to_json()
        if len(j["paths"]) != len(o.paths):
            viols.append({"kind": "json-path-count", "key": det, "what": "%s: JSON lists %d paths, result has %d" % (det, len(j["paths"]), len(o.paths))})
            continue
        for p, jp in zip(o.paths, j["paths"]):
            ctr["renderings_checked"] += 1
            want_short = " -> ".join(str(b.idx) for b in p)
            if jp["short"] != want_short or o._short_notation(p) != want_short:
                viols.append({"kind": "short-notation", "key": det, "what": "%s: short notation %r / %r, path is %r" % (det, jp["short"], o._short_notation(p), want_short)})
            if len(jp["blocks"]) != len(p):
                viols.append({"kind": "json-blocks", "key": det, "what": "%s: JSON path has %d blocks, path has %d" % (det, len(jp["blocks"]), len(p))})
                continue
            for b, jb in zip(p, jp["blocks"]):
                lines = [i.line for i in b.instructions]
                got = []
                for entry in jb:
                    m = re.match(r"^(\d+): (.*)$", entry, re.S)
                    got.append((int(m.group(1)), m.group(2)) if m else (None, entry))
                if [g[0] for g in got] != lines:
                    viols.append({"kind": "json-block-lines", "key": det, "what": "%s: JSON block lists lines %s, block %d holds %s" % (det, [g[0] for g in got], b.idx, lines)})
                    break
                if src_lines is not None:
                    for ln, text in got:
                        if norm(text) != norm(src_lines[ln - 1]):
                            viols.append({"kind": "json-block-text", "key": det, "what": "%s: JSON shows line %d as %r, source has %r" % (det, ln, text, src_lines[ln - 1])})
                            break
        # terminal text + file numbering
        if o.paths:
            dest = os.path.join(common.OUT_DIR, "c02")
            os.makedirs(dest, exist_ok=True)
            from pathlib import Path
            with observe.Quiet() as q:
                o.generate_output(Path(dest))
            text = q.out.getvalue()
            shown = re.findall(r"^\t\t path: (.*)$", text, re.M)
            files = re.findall(r"^\t\t check file: (.*)$", text, re.M)
            want = [" -> ".join(str(b.idx) for b in p) for p in o.paths]
            if shown != want:
                viols.append({"kind": "terminal-paths", "key": det, "what": "%s: terminal shows %s, paths are %s" % (det, shown[:4], want[:4])})
            for k, f in enumerate(files, start=1):
                if not f.endswith("%s-%d.dot" % (det, k)) or not os.path.exists(f):
                    viols.append({"kind": "path-file-numbering", "key": det, "what": "%s: file for path %d is %s" % (det, k, f)})
                    break
            for f in files:
                try:
                    os.remove(f)
                except OSError:
                    pass
            ctr["terminal_outputs_checked"] += 1


def evaluate(case, ctr, rng):
    viols, nontrivial = [], []
    res = observe.run_detectors(case.obs)
    full = [("#pragma", "version", case.version)] + list(case.prog)
    ref = RefCFG(full)
    src_lines = case.src.splitlines()
    for det in observe.PATH_DETECTORS:
        check_paths(case.function, case.obs.teal, det, res[det], ref, src_lines, ctr, viols, nontrivial, case.src)
    return viols, nontrivial


class _Timeout(Exception):
    pass


def _alarm(*a):
    raise _Timeout()


def corpus_files():
    """(.teal files of the repository) + (TEAL programs embedded as string literals in tests/**/*.py)."""
    fs = sorted(glob.glob(os.path.join(common.REPO, "tests", "**", "*.teal"), recursive=True))
    out = [(f, None) for f in fs]
    for py in sorted(glob.glob(os.path.join(common.REPO, "tests", "**", "*.py"), recursive=True)):
        try:
            with open(py, encoding="utf-8") as fh:
                text = fh.read()
        except OSError:
            continue
        for k, m in enumerate(re.finditer(r'"""\s*\n?(#pragma version \d+.*?)"""', text, re.S)):
            out.append(("%s#%d" % (py, k), m.group(1)))
    return out


def corpus_batch(files, ctr, out):
    for f, embedded in files:
        if embedded is not None:
            src = embedded
        else:
            with open(f, encoding="utf-8") as fh:
                src = fh.read()
        signal.signal(signal.SIGALRM, _alarm)
        signal.alarm(60)
        try:
            obs = observe.analyse(src, "corpus")
            res = observe.run_detectors(obs)
            viols, nontrivial = [], []
            for det in observe.PATH_DETECTORS:
                check_paths(obs.function, obs.teal, det, res[det], None, None, ctr, viols, nontrivial, f)
            signal.alarm(0)
        except _Timeout:
            ctr["corpus_timeouts"] += 1
            continue
        except Exception as e:
            signal.alarm(0)
            ctr["corpus_tealer_raised"] += 1
            continue
        finally:
            signal.alarm(0)
        ctr["corpus_files_checked"] += 1
        common.release_tealer_caches()
        out["cases"] += 1
        out["nontrivial"].extend(nontrivial)
        for v in viols[:3]:
            v["src"] = src[:4000]
            v["corpus_file"] = f
            v["mechanism"] = None
            out["violations"].append(v)


_P = {"recursion": True, "max_subs": 4}
_c = fragcheck.FragCheck(
    PROP, evaluate,
    profiles=[(3, {}, "mixed"), (3, dict(_P), "recursion"),
              (3, {"max_subs": 3, "weights": {"loop": 3, "doloop": 6, "call": 8, "ret": 3}, "max_stmts": 3}, "calls-in-loops"), (2, {"max_subs": 5, "max_depth": 4, "direct_only": True}, "deep-direct"),
              (1, {"max_stmts": 2, "max_depth": 1, "max_subs": 2, "keys": ["Fee"]}, "small")],
    sizes={"quick": (32, 14), "thorough": (160, 60)},
    rule="reported paths of the nine detectors on fragment programs (incl. recursion, loops inside subroutines, shared "
         "subroutines called several times on one path) and on the repository's .teal corpus; non-trivial = distinct "
         "reported path containing a call/return pair",
    classify=None, want_execs=False,
)
plan = _c.plan
coverage = _c.coverage
replay = _c.replay


def run_batch(spec):
    out = _c.run_batch(spec)
    files = corpus_files()
    nb = 32 if spec["tier"] == "quick" else 160
    mine = [f for i, f in enumerate(files) if i % nb == spec["batch"]]
    if mine:
        ctr = frag.Ctr(out["counters"])
        corpus_batch(mine, ctr, out)
        out["counters"] = dict(ctr)
    return out
