"""C07 - transaction-kind sets keep every approvable detector-relevant kind.

Monitor: for every accepting execution and every block it visits, the kind of the governed transaction
(appl+UpdateApplication, appl+DeleteApplication on an existing application, pay, axfer) must be present in
transaction_types(block).  A kind that the program never reads is a wildcard: all four labels are required.
"""
from vt import common, classify
from vt.checks import fragcheck, frag, ctxlib

PROP = "C07"
ASSUMPTIONS = [
    "reference interpreter vt/ref/avm.py decides acceptance",
    "a non-application transaction reads OnCompletion = 0 and ApplicationID = 0 (protocol defaults)",
    "UpdateApplication/DeleteApplication obligations are stated for existing applications (ApplicationID != 0) only",
]
DECIDING_COUNTERS = ["block_visits_checked", "accepting_executions", "kind_known_visits"]


def evaluate(case, ctr, rng):
    viols, nontrivial = [], []
    fn = case.function
    for e in case.execs:
        t = e.group[e.own]
        known = frag.kind_of(t) is not None
        need = ctxlib.needed_type_labels(t)
        if not need:
            continue
        for b in e.blocks:
            ctr["block_visits_checked"] += 1
            if known:
                ctr["kind_known_visits"] += 1
            have = ctxlib.type_names(fn.transaction_context(b))
            for lab in need:
                if known:
                    nontrivial.append(common.h([case.src, b.entry_instr.line, lab]))
                if lab not in have:
                    viols.append({"kind": "kind-missing", "key": (b.entry_instr.line, lab), "ckey": lab, "type_label": lab,
                                  "what": "accepting execution with kind %s visits block at line %d; transaction_types=%s lacks %s" % (
                                      frag.kind_of(t), b.entry_instr.line, sorted(have), lab),
                                  "exec": frag.slim_exec(e), "ended_in_call": e.ended_in_call})
    return viols, nontrivial


_P = {"keys": ["Type", "Type", "OC", "OC", "AppID", "AppID", "Fee", "Addr", "GroupIndex"]}
_c = fragcheck.FragCheck(
    PROP, evaluate,
    profiles=[(3, dict(_P), "mixed"), (2, dict(_P, direct_only=True), "direct"),
              (1, dict(_P, max_subs=5, max_depth=4), "deep"),
              (2, dict(_P, max_subs=4, max_stmts=3, weights={"call": 8, "ret": 3, "doloop": 2}), "call-heavy"),
              (1, {"lattice": True, "keys": ["Type", "OC", "AppID", "Addr"]}, "call-lattice")],
    sizes={"quick": (32, 45), "thorough": (160, 160)},
    rule="fragment programs biased to TypeEnum/OnCompletion/ApplicationID checks (by word and number, both operand orders, "
         "&&/||/!, bare `txn ApplicationID`) x all kind valuations; non-trivial = distinct (program, block, kind label) "
         "witnessed by an accepting execution whose kind the program actually reads",
    classify=classify.fragment, cap=(900, 1800),
)
_c.export(globals())
