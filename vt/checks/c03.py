"""C03 - no report when every accepting path directly excludes the dangerous value.

Monitor: run the nine detectors on direct-check programs; independently the abstract walk oracle (vt/ref/walks.py)
computes, per governed field, which instructions lie on an accepting walk when comparisons of that field against
constants are read exactly and everything else is free (two-field detectors: the fields independently), and then
searches a matched-return entry-to-exit walk all of whose instructions admit the detector's dangerous value.
Refuting event: no such walk exists and the detector reports a path.
"""
from vt import common, classify
from vt.checks import fragcheck, frag, exact
from vt.gen import inputs
from vt.mon import observe
from vt.ref import walks

PROP = "C03"
ASSUMPTIONS = [
    "abstract walk oracle vt/ref/walks.py (direct checks exact, every other condition free, matched returns)",
    "programs are of the direct-check fragment: conditions computed inside one block from txn/global reads and constants, "
    "consumed by assert/bz/bnz/return; no recursion; governed fields are read through `txn` only",
    "Fee is judged on representatives: c-1, c, c+1 for every constant of the program, 272000, 272001, 2^64-1",
]
DECIDING_COUNTERS = ["detector_verdicts_compared", "oracle_says_guarded", "oracle_says_path"]
A = lambda x: ("A", x)  # noqa: E731
U64 = (1 << 64) - 1


def allowed_pcs(case, det):
    """pcs whose every governed field (of detector det) admits the dangerous value; and the pcs the walk must touch."""
    P = exact.oracle(case)
    need = None

    def adm(key, v):
        return exact.admitted(case, key, v, "valid")

    if det == "rekey-to":
        allowed = adm("RekeyTo", A("ATTACKER"))
    elif det == "can-close-account":
        allowed = adm("CloseRemainderTo", A("ATTACKER")) & adm("Kind", (1, 0, 0))
    elif det == "can-close-asset":
        allowed = adm("AssetCloseTo", A("ATTACKER")) & adm("Kind", (4, 0, 0))
    elif det == "missing-fee-check":
        consts = set()
        for ins in case.prog:
            if ins[0] in ("int", "pushint") and isinstance(ins[1], int):
                consts.add(int(ins[1]))
            if ins[0] == "intcblock":
                consts.update(int(x) for x in ins[1:])
        allowed = set()
        for f in inputs.uint_reps(consts, extra=(272000, 272001, U64), limit=40):
            if f > 272000:
                allowed |= adm("Fee", f)
    elif det in ("is-updatable", "unprotected-updatable", "is-deletable", "unprotected-deletable"):
        oc = 4 if "updatable" in det else 5
        allowed = adm("Kind", (6, oc, 77))
        if det.startswith("unprotected"):
            allowed = allowed & adm("Sender", A("ATTACKER"))
    elif det == "group-size-check":
        allowed = adm("GroupSize", 16)
        need = set(case.reads.abs_read_pcs)
    else:
        raise ValueError(det)
    return allowed, need


def evaluate(case, ctr, rng):
    viols, nontrivial = [], []
    if not exact.eligible(case) or exact.oracle(case) is None:
        ctr["skipped_not_direct"] += 1
        return viols, nontrivial
    P = exact.oracle(case)
    res = observe.run_detectors(case.obs)
    try:
        any_walk = bool(exact.admitted(case, "GroupSize", 1, "valid") or exact.admitted(case, "GroupSize", 16, "valid"))
        for det in observe.PATH_DETECTORS:
            allowed, need = allowed_pcs(case, det)
            oracle_path = P.exists_walk_within(allowed, need)
            tealer_path = bool(observe.paths_of(res[det]))
            ctr["detector_verdicts_compared"] += 1
            ctr["oracle_%s_tealer_%s" % ("path" if oracle_path else "none", "path" if tealer_path else "none")] += 1
            if oracle_path:
                ctr["oracle_says_path"] += 1
            else:
                ctr["oracle_says_guarded"] += 1
                if any_walk:
                    nontrivial.append(common.h([case.src, det]))
                if tealer_path:
                    p = observe.paths_of(res[det])[0]
                    viols.append({"kind": "reported-although-guarded", "key": det, "ckey": det, "detector": det,
                                  "what": "%s reports %d path(s) (first: %s) although no entry-to-exit walk exists on which every block admits its dangerous value when the direct checks are read exactly" % (
                                      det, len(observe.paths_of(res[det])), [b.idx for b in p])})
    except OverflowError:
        ctr["skipped_state_space"] += 1
    return viols, nontrivial


def classify_c03(v, case, reeval):
    m = classify.fragment(v, case, reeval)
    if m is None and v.get("detector") == "missing-fee-check" and v["kind"] == "reported-although-guarded":
        # is the report explained by a Fee domain that keeps a single upper bound?  Re-run the oracle with the
        # 'some larger fee' semantics: if a walk exists there, the disagreement is exactly the lost lower bounds.
        P = exact.oracle(case)
        consts = set()
        for ins in case.prog:
            if ins[0] in ("int", "pushint") and isinstance(ins[1], int):
                consts.add(int(ins[1]))
            if ins[0] == "intcblock":
                consts.update(int(x) for x in ins[1:])
        allowed = set()
        key = walks.Key("Fee", upward=True)
        for f in inputs.uint_reps(consts, extra=(272000, 272001, U64), limit=40):
            if f > 272000:
                allowed |= P.admitted(key, f, "valid")
        if P.exists_walk_within(allowed, None):
            return "fee-domain-keeps-no-lower-bound"
    return m


_P = {"direct_only": True, "gtxn": 0.0, "recursion": False}
_c = fragcheck.FragCheck(
    PROP, evaluate,
    profiles=[(3, dict(_P), "direct"), (2, dict(_P, max_subs=5, max_depth=4), "direct-deep"),
              (2, dict(_P, max_stmts=2, max_depth=2, max_subs=1), "direct-small"),
              (1, dict(_P, keys=["Fee", "Fee", "Addr"]), "direct-fee"), (1, dict(_P, keys=["Type", "OC", "AppID", "Addr"]), "direct-kind")],
    sizes={"quick": (32, 25), "thorough": (160, 120)},
    rule="direct-check programs (operand order x six operators x negation x &&/|| nesting x consumer assert/bz/bnz/return x "
         "location: entry, branch arm, loop body, shared / nested subroutine, return point) x nine detectors; non-trivial = distinct "
         "(program, detector) where the program has an accepting walk and the oracle says every accepting walk is guarded",
    classify=classify_c03, want_execs=False,
)
_c.export(globals())
