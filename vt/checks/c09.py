"""C09 - the per-block fee bound is an upper bound on every approvable fee.

Soundness monitor: accepting execution with Fee f visiting block b and max_fee_unknown(b) false => f <= max_fee(b).
Clauses 2 and 3 (bound <= 272000 only if a fee comparison constrains every accepting path; single direct checks give
exactly the implied bound) are decided in exact.py.
"""
from vt import common, classify
from vt.checks import fragcheck, frag, ctxlib, exact

PROP = "C09"
ASSUMPTIONS = [
    "reference interpreter vt/ref/avm.py decides acceptance",
    "fee representatives: c-1, c, c+1 for each nearby constant, 0, 272000, 272001, 2^64-1",
]
DECIDING_COUNTERS = ["block_visits_checked", "accepting_executions", "finite_bound_visits"]


def evaluate(case, ctr, rng):
    viols, nontrivial = [], []
    fn = case.function
    for e in case.execs:
        t = e.group[e.own]
        for b in e.blocks:
            ctr["block_visits_checked"] += 1
            ctx = fn.transaction_context(b)
            if not ctx.max_fee_unknown and ctx.max_fee < frag.U64:
                ctr["finite_bound_visits"] += 1
                nontrivial.append(common.h([case.src, b.entry_instr.line]))
            x = ctxlib.fee_excess(ctx, t)
            if x:
                viols.append({"kind": "fee-above-bound", "key": b.entry_instr.line, "ckey": "fee",
                              "what": "accepting execution with Fee %s visits block at line %d whose max_fee is %d" % (
                                  x[0], b.entry_instr.line, x[1]),
                              "exec": frag.slim_exec(e), "ended_in_call": e.ended_in_call})
    ev, nt = exact.evaluate_fee(case, ctr, rng)
    viols.extend(ev)
    nontrivial.extend(nt)
    return viols, nontrivial


_P = {"keys": ["Fee", "Fee", "Fee", "Addr", "Type", "GroupIndex"]}
_c = fragcheck.FragCheck(
    PROP, evaluate,
    profiles=[(3, dict(_P), "mixed"), (2, dict(_P, direct_only=True), "direct"),
              (1, dict(_P, max_subs=5, max_depth=4), "deep"),
              (2, dict(_P, max_subs=4, max_stmts=3, weights={"call": 8, "ret": 3, "doloop": 2}), "call-heavy"),
              (1, {"lattice": True, "keys": ["Fee", "Fee", "Addr"]}, "call-lattice")],
    sizes={"quick": (32, 45), "thorough": (160, 160)},
    rule="fragment programs biased to Fee comparisons (six operators, both operand orders, negations, &&/||) x fee "
         "representatives; non-trivial = distinct (program, block) with a finite reported bound visited by an accepting execution",
    classify=classify.fragment, cap=(900, 1800),
)
_c.export(globals())
