"""C09 - the per-block fee bound is an upper bound on every approvable fee.

Soundness monitor: accepting execution with Fee f visiting block b and max_fee_unknown(b) false => f <= max_fee(b).
Clauses 2 and 3 (bound <= 272000 only if a fee comparison constrains every accepting path; single direct checks give
exactly the implied bound) are decided in exact.py.
"""
from vt import common, classify
from vt.checks import fragcheck, frag, ctxlib, exact

PROP = "C09"
ASSUMPTIONS = [
    "reference interpreter vt/ref/avm.py decides acceptance",
    "fee representatives: c-1, c, c+1 for each nearby constant, 0, 272000, 272001, 2^64-1",
]
DECIDING_COUNTERS = ["block_visits_checked", "accepting_executions", "finite_bound_visits"]


def evaluate(case, ctr, rng):
    viols, nontrivial = [], []
    fn = case.function
    for e in case.execs:
        t = e.group[e.own]
        for b in e.blocks:
            ctr["block_visits_checked"] += 1
            ctx = fn.transaction_context(b)
            if not ctx.max_fee_unknown and ctx.max_fee < frag.U64:
                ctr["finite_bound_visits"] += 1
                nontrivial.append(common.h([case.src, b.entry_instr.line]))
            x = ctxlib.fee_excess(ctx, t)
            if x:
                viols.append({"kind": "fee-above-bound", "key": b.entry_instr.line, "ckey": "fee",
                              "what": "accepting execution with Fee %s visits block at line %d whose max_fee is %d" % (
                                  x[0], b.entry_instr.line, x[1]),
                              "exec": frag.slim_exec(e), "ended_in_call": e.ended_in_call})
    viols.extend(evaluate_single(case, ctr))
    ev, nt = exact.evaluate_fee(case, ctr, rng)
    viols.extend(ev)
    nontrivial.extend(nt)
    return viols, nontrivial


def single_checks(rng):
    """Clause 3: every single direct check (six operators x operand order x negation x consumer) over a few constants.
    The expected bound is computed by brute force over the representatives and carried in a feature string."""
    U = frag.U64
    OPS = {"==": lambda a, b: a == b, "!=": lambda a, b: a != b, "<": lambda a, b: a < b, "<=": lambda a, b: a <= b,
           ">": lambda a, b: a > b, ">=": lambda a, b: a >= b}
    out = []
    for c in (0, 1, 1000, 271999, 272000, 272001, 5000000, U - 1, U):
        for op, fn in OPS.items():
            for const_first in (False, True):
                for neg in (False, True):
                    for consumer in ("assert", "bz", "bnz", "return"):
                        reps = sorted(set(v for v in (0, c - 1, c, c + 1, 272000, 272001, U) if 0 <= v <= U))
                        def holds(f):
                            r = fn(c, f) if const_first else fn(f, c)
                            return (not r) if neg else r
                        cmpi = ([("int", c), ("txn", "Fee")] if const_first else [("txn", "Fee"), ("int", c)]) + [(op,)]
                        if neg:
                            cmpi.append(("!",))
                        if consumer == "assert":
                            prog = cmpi + [("assert",), ("int", 1), ("return",)]
                            acc, leaf = [f for f in reps if holds(f)], len(prog) - 2
                        elif consumer == "return":
                            prog = cmpi + [("return",)]
                            acc, leaf = [f for f in reps if holds(f)], 0
                        elif consumer == "bz":
                            prog = cmpi + [("bz", "FAIL"), ("int", 1), ("return",), ("label", "FAIL"), ("err",)]
                            acc, leaf = [f for f in reps if holds(f)], len(cmpi) + 1
                        else:
                            prog = cmpi + [("bnz", "OK"), ("err",), ("label", "OK"), ("int", 1), ("return",)]
                            acc, leaf = [f for f in reps if holds(f)], len(prog) - 2
                        if not acc:
                            continue
                        out.append((prog, 4, ["single_fee_check", "expect_fee_bound=%d@%d" % (max(acc), leaf + 2)]))
    rng.shuffle(out)
    return out[:400]


def evaluate_single(case, ctr):
    viols = []
    for f in case.features:
        if not str(f).startswith("expect_fee_bound="):
            continue
        want, line = f.split("=", 1)[1].split("@")
        want, line = int(want), int(line)
        for b in case.function.blocks:
            if b.entry_instr.line <= line <= b.exit_instr.line:
                ctx = case.function.transaction_context(b)
                ctr["single_check_bounds_compared"] += 1
                got = None if ctx.max_fee_unknown else ctx.max_fee
                if got != want:
                    viols.append({"kind": "single-check-bound-not-exact", "key": line, "ckey": "fee-single",
                                  "what": "single direct check: the accepting block at line %d should carry exactly the bound %d, tealer says %s" % (
                                      line, want, "unknown" if got is None else got)})
    return viols


_P = {"keys": ["Fee", "Fee", "Fee", "Addr", "Type", "GroupIndex"]}
_c = fragcheck.FragCheck(
    PROP, evaluate,
    profiles=[(3, dict(_P), "mixed"), (2, dict(_P, direct_only=True), "direct"),
              (1, dict(_P, max_subs=5, max_depth=4), "deep"),
              (2, dict(_P, max_subs=4, max_stmts=3, weights={"call": 8, "ret": 3, "doloop": 2}), "call-heavy"),
              (1, {"lattice": True, "keys": ["Fee", "Fee", "Addr"]}, "call-lattice")],
    sizes={"quick": (32, 45), "thorough": (160, 160)},
    rule="fragment programs biased to Fee comparisons (six operators, both operand orders, negations, &&/||) x fee "
         "representatives; non-trivial = distinct (program, block) with a finite reported bound visited by an accepting execution",
    classify=classify.fragment, cap=(900, 1800), extra_cases=single_checks,
)
_c.export(globals())
