"""C15 - verdicts are invariant under meaning-preserving rewrites of the source.

Monitor (metamorphic): the same fragment program is analysed in its original spelling and after a composition of
rewrites (label renaming; comments / blank lines / indentation; integer radix; type / completion constants by word
or number; int <-> pushint <-> entry intcblock + intc; stack-neutral padding; moving whole subroutine bodies).
Per-block contexts of corresponding blocks and the sets of reported paths, mapped through the instruction map,
must be equal.  Every rewritten program is also run through the reference interpreter on sample inputs: a rewrite
that changed the meaning is a harness error (counted, case dropped), never an alarm.
"""
import random

from vt import common
from vt.gen import fragment, rewrite, inputs, teal as T
from vt.mon import observe
from vt.ref import avm

PROP = "C15"
ASSUMPTIONS = [
    "rewriters in vt/gen/rewrite.py preserve meaning (cross-checked per case with the reference interpreter on sample inputs)",
    "blocks correspond through the instruction map (first instruction of the block)",
    "reported paths are compared as sets of block-key sequences (order may follow the renumbering)",
]
DECIDING_COUNTERS = ["pairs_compared", "blocks_compared", "paths_compared"]


class Ctr(dict):
    def __missing__(self, k):
        return 0


def plan(tier, seed, scale=1.0):
    nb = 32
    per = max(2, int((25 if tier == "quick" else 400) * scale))
    return [{"batch": b, "n": per, "seed": seed, "tier": tier} for b in range(nb)]


def analyse(src):
    obs = observe.analyse(src)
    res = observe.run_detectors(obs)
    return obs, res


def block_keys(obs, line_to_idx):
    """{orig-index key of the block's first instruction: block}"""
    out = {}
    for b in obs.function.blocks:
        k = line_to_idx.get(b.entry_instr.line)
        out[k] = b
    return out


def ctx_sig(ctx):
    d = observe.full_ctx_dump(ctx)
    return d


def compare(prog, version, names, rng, ctr):
    """Returns (violations, nontrivial) for one (program, composition)."""
    src0, line_of0 = T.render(prog, version)
    cur, mapping = list(prog), rewrite.identity(prog)
    applied = []
    for nm in names:
        new, m = rewrite.REWRITES[nm](cur, rng)
        if new != cur:
            applied.append(nm)
        mapping = rewrite.compose(mapping, m)
        cur = new
    if "decorate" in names or rng.random() < 0.5:
        src1, line_of1 = rewrite.render_decorated(cur, max(version, T.min_version(cur)), rng)
        applied.append("decorate")
    else:
        src1, line_of1 = T.render(cur, max(version, T.min_version(cur)))
    if src1 == src0:
        return None
    # meaning check on sample inputs
    n = 0
    for g, own, _e in inputs.enumerate_groups(prog, rng, cap=60):
        r0 = avm.run(prog, g, own)
        r1 = avm.run([tuple(int(x) if isinstance(x, rewrite.RawInt) else x for x in i) for i in cur], g, own)
        n += 1
        if r0["ok"] != r1["ok"]:
            ctr["rewriter_changed_meaning"] += 1
            return None
    obs0, res0 = analyse(src0)
    obs1, res1 = analyse(src1)
    # keys: original instruction index (pragma = -1)
    l2i0 = {1: -1}
    for i, ln in enumerate(line_of0):
        l2i0[ln] = i
    inv = {}
    for old, new in enumerate(mapping):
        inv[new] = old
    l2i1 = {}
    for i, ln in enumerate(line_of1):
        if i in inv:
            l2i1[ln] = inv[i]
    for ln in range(1, (line_of1[0] if line_of1 else 2)):
        l2i1.setdefault(ln, -1)
    # the pragma line of the rewritten text
    l2i1[[k for k, t in enumerate(src1.splitlines(), start=1) if t.startswith("#pragma")][0]] = -1
    if cur and cur[0][0] == "intcblock" and (not prog or prog[0][0] != "intcblock"):
        pass
    k0 = block_keys(obs0, l2i0)
    k1 = block_keys(obs1, l2i1)
    viols = []
    ctr["pairs_compared"] += 1
    if set(k0) != set(k1):
        viols.append(("block-structure", "blocks start at original instructions %s vs %s after %s" % (
            sorted(x for x in set(k0) - set(k1) if x is not None)[:6], sorted(x for x in set(k1) - set(k0) if x is not None)[:6], applied)))
        return viols, applied, src0, src1
    for key in k0:
        ctr["blocks_compared"] += 1
        c0 = ctx_sig(obs0.function.transaction_context(k0[key]))
        c1 = ctx_sig(obs1.function.transaction_context(k1[key]))
        if c0 != c1:
            field = [f for f in c0 if c0[f] != c1[f]][0]
            viols.append(("context-changed", "block starting at original instruction %s: %s = %s before, %s after %s" % (
                key, field, str(c0[field])[:120], str(c1[field])[:120], applied)))
            break
    for det in observe.PATH_DETECTORS:
        p0 = set(tuple(l2i0.get(b.entry_instr.line) for b in p) for p in observe.paths_of(res0[det]))
        p1 = set(tuple(l2i1.get(b.entry_instr.line) for b in p) for p in observe.paths_of(res1[det]))
        ctr["paths_compared"] += len(p0)
        if p0 != p1:
            viols.append(("paths-changed", "%s: %d paths before, %d after %s; only before %s; only after %s" % (
                det, len(p0), len(p1), applied, sorted(p0 - p1)[:2], sorted(p1 - p0)[:2])))
            if bool(p0) != bool(p1):
                viols[-1] = ("verdict-changed", viols[-1][1])
    return viols, applied, src0, src1


def run_batch(spec):
    import signal
    common.import_tealer()
    rng = common.rng_for(PROP, spec["batch"], spec["seed"])
    ctr = Ctr()
    out = {"violations": [], "nontrivial": [], "samples": [], "cases": 0, "inconclusive": 0, "notes": []}
    allv = []

    class TO(BaseException):
        pass

    def _al(*a):
        raise TO()

    signal.signal(signal.SIGALRM, _al)
    names_all = list(rewrite.REWRITES)
    for n in range(spec["n"]):
        c = fragment.generate(rng, {"max_subs": 3, "max_stmts": 3})
        k = rng.randint(1, 5)
        names = [rng.choice(names_all) for _ in range(k)]
        signal.alarm(60)
        try:
            r = compare(c["prog"], c["version"], names, rng, ctr)
        except TO:
            out["inconclusive"] += 1
            continue
        except Exception as e:
            import traceback
            out["inconclusive"] += 1
            if len(out["notes"]) < 2:
                out["notes"].append({"raised": traceback.format_exc()[-700:]})
            continue
        finally:
            signal.alarm(0)
        if r is None:
            continue
        viols, applied, src0, src1 = r
        common.release_tealer_caches()
        out["cases"] += 1
        if set(applied) & {"int_spelling", "move_subroutines", "named_constants", "radix", "padding"}:
            out["nontrivial"].append(common.h([src0, sorted(set(applied))]))
        for a in set(applied):
            ctr["applied_" + a] += 1
        for kind, what in viols:
            allv.append({"kind": kind, "key": tuple(sorted(set(applied))), "what": what, "src": src0, "rewritten": src1,
                         "prog": c["prog"], "version": c["version"], "rewrites": names, "mechanism": None})
        if len(out["samples"]) < 1 and len(src0) < 500 and len(applied) >= 2:
            out["samples"].append({"original": src0, "rewritten": src1, "rewrites": applied})
    seen = {}
    for v in allv:
        seen.setdefault((v["kind"], v["key"]), v)
    out["violations"] = list(seen.values())[:30]
    out["counters"] = dict(ctr)
    return out


def replay(case):
    common.import_tealer()
    ctr = Ctr()
    res = {"violations": [], "cases": 1, "counters": {}}
    # deterministic re-comparison of the stored pair
    try:
        obs0, r0 = analyse(case["src"])
        obs1, r1 = analyse(case["rewritten"])
        for det in observe.PATH_DETECTORS:
            if bool(observe.paths_of(r0[det])) != bool(observe.paths_of(r1[det])):
                res["violations"].append({"kind": "verdict-changed", "what": det, "mechanism": None})
    except Exception:
        pass
    if not res["violations"] and case.get("kind") != "verdict-changed":
        res["violations"].append(dict(case))
    return res


def coverage(m, tier):
    return {
        "rule": "fragment programs x compositions of 1-5 rewrites (+ decoration); non-trivial = distinct (program, set of applied "
                "rewrites) that changes block numbering, constant spelling or layout",
        "evaluations": m["counters"].get("pairs_compared", 0),
    }
