"""C01 - detectors never miss an approvable dangerous transaction.

Monitor: run all nine path-reporting detectors of the real tealer on the program; independently, the reference
interpreter searches the representative groups for an accepting execution whose governed transaction carries the
detector's dangerous value.  Refuting event: such an execution exists and the detector reported no path.
"""
from vt import common, classify
from vt.checks import fragcheck, frag
from vt.mon import observe

PROP = "C01"
ASSUMPTIONS = [
    "reference interpreter vt/ref/avm.py decides acceptance",
    "dangerous values: attacker address (never named by the contract), Fee > 272000, UpdateApplication/DeleteApplication "
    "on an existing application (from the attacker for unprotected-*), group size 16 on an execution reading another "
    "member through gtxn / `int i; gtxns`",
    "a field the program never reads can take the dangerous value (protocol-consistent with the kind the program reads)",
]
DECIDING_COUNTERS = ["live_obligations", "accepting_executions", "detector_runs"]


def evaluate(case, ctr, rng):
    viols, nontrivial = [], []
    res = observe.run_detectors(case.obs)
    for det in observe.PATH_DETECTORS:
        ctr["detector_runs"] += 1
        paths = observe.paths_of(res[det])
        witness = None
        for e in case.execs:
            if frag.carries(det, case, e):
                witness = e
                if not e.ended_in_call:
                    break
        if witness is None:
            ctr["vacuous_pairs"] += 1
            if paths:
                ctr["reports_without_witness"] += 1
            continue
        ctr["live_obligations"] += 1
        ctr["live_" + det] += 1
        nontrivial.append(common.h([case.src, det]))
        if not paths:
            viols.append({"kind": "missed", "key": det, "ckey": det, "detector": det,
                          "what": "%s reports no path although an accepting execution carries its dangerous value" % det,
                          "exec": frag.slim_exec(witness), "ended_in_call": witness.ended_in_call})
        else:
            ctr["reported_and_witnessed"] += 1
    return viols, nontrivial


_c = fragcheck.FragCheck(
    PROP, evaluate,
    profiles=[(3, {}, "mixed"), (2, {"direct_only": True}, "direct"),
              (1, {"max_subs": 5, "max_depth": 4}, "deep"),
              (1, {"max_stmts": 2, "max_depth": 1, "max_subs": 1}, "small"),
              (2, {"max_subs": 4, "max_stmts": 3, "weights": {"call": 8, "ret": 3, "doloop": 2}}, "call-heavy"),
              (1, {"lattice": True}, "call-lattice")],
    sizes={"quick": (32, 30), "thorough": (160, 120)},
    rule="fragment programs (flat checks, diamonds, loops, shared/nested subroutines, switch/match, gtxn/gtxns reads, "
         "hostile layouts) x representative groups; a (program, detector) pair is non-trivial when an accepting execution "
         "carrying the detector's dangerous value exists (the obligation is live)",
    classify=classify.fragment, cap=(1000, 2000),
)
_c.export(globals())
