"""C13 - group-configuration verdicts follow the group semantics.

Monitor: init_tealer_from_config(cfg).run_detectors() -> GroupTransactionOutput.transactions for generated YAML
configurations (1-3 configured transactions, logic-sigs / applications drawn from fragment contracts, absolute
indices, relative offsets of both signs, transaction types).  Oracle: concrete groups consistent with the
configuration; a transaction is vulnerable for detector D iff some such group is approved by every configured
contract while the transaction carries D's dangerous value.  A group of one transaction running one contract must
agree with the single-contract verdict.
"""
import itertools
import os
import random
import shutil
import tempfile

from vt import common
from vt.checks import frag
from vt.gen import fragment, inputs, teal as T
from vt.mon import observe
from vt.ref import avm

PROP = "C13"
ASSUMPTIONS = [
    "reference interpreter vt/ref/avm.py run once per configured contract on the same concrete group",
    "a transaction with has_logic_sig but no configured contract is approved by its (unknown) logic-sig",
    "generated contracts avoid the constructs of the listed known findings (constant-first GroupSize/GroupIndex "
    "comparisons, TypeEnum/OnCompletion/ApplicationID checks) so that every miss is attributable to the group logic",
]
DECIDING_COUNTERS = ["configurations", "vulnerable_by_oracle", "degenerate_comparisons", "cross_reads_configs", "cleared_by_statement_checks"]
BATCH_TIMEOUT = {"quick": 900, "thorough": 3000}
GROUP_DETECTORS = ["rekey-to", "can-close-account", "can-close-asset", "missing-fee-check",
                   "is-updatable", "is-deletable", "unprotected-updatable", "unprotected-deletable"]
STATELESS = {"rekey-to", "can-close-account", "can-close-asset", "missing-fee-check"}
TYPE_NUM = {"pay": 1, "keyreg": 2, "acfg": 3, "axfer": 4, "afrz": 5, "appl": 6}
PROFILE = {"keys": ["Fee", "Addr", "Addr", "GroupIndex", "GroupSize"], "p_cf": 0.0, "max_subs": 1, "max_stmts": 3,
           "max_depth": 2, "gtxn": 0.5, "loops": False, "switch": False, "direct_only": True, "intc": 0.0,
           "end_styles": ["ret1"], "feesink": 0.0, "hostile_endings": False, "mode_marker": 0.0}


class Ctr(dict):
    def __missing__(self, k):
        return 0


def plan(tier, seed, scale=1.0):
    nb = 32
    per = max(2, int((10 if tier == "quick" else 150) * scale))
    return [{"batch": b, "n": per, "seed": seed, "tier": tier} for b in range(nb)]


GUARDS = {
    "rekey-to": [("RekeyTo",), ("global", "ZeroAddress"), ("==",)],
    "can-close-account": [("CloseRemainderTo",), ("global", "ZeroAddress"), ("==",)],
    "can-close-asset": [("AssetCloseTo",), ("global", "ZeroAddress"), ("==",)],
    "missing-fee-check": [("Fee",), ("int", 2000), ("<=",)],
}


def guard_prefix(rng, access, dets):
    """Unconditional asserts, at the very start of a contract, that the member reached through `access`
    (('rel', k) | ('abs', i)) has the safe value for each detector in dets."""
    out = []
    for d in dets:
        field, const, op = GUARDS[d]
        if access[0] == "self":
            rd = [("txn", field[0])]
        elif access[0] == "abs":
            rd = [("gtxn", access[1], field[0])] if rng.random() < 0.5 else [("int", access[1]), ("gtxns", field[0])]
        else:
            k = access[1]
            if k > 0:
                rd = rng.choice([[("txn", "GroupIndex"), ("int", k), ("+",)], [("int", k), ("txn", "GroupIndex"), ("+",)]]) + [("gtxns", field[0])]
            else:
                rd = [("txn", "GroupIndex"), ("int", -k), ("-",), ("gtxns", field[0])]
        out += rd + [const, op, ("assert",)]
    return out


def gen_guarded_config(rng):
    """Two transactions: A's contract starts with unconditional checks on the member at an offset / absolute index;
    B is configured either exactly there (must be cleared, by the statement) or somewhere else (oracle decides)."""
    dets = rng.sample(list(GUARDS), rng.randint(1, 3))
    if rng.random() < 0.3:
        # a logic-sig that validates ITS OWN fields through `gtxn i`, i being its configured absolute index
        i = rng.choice([0, 0, 1, 2, 3])
        c = fragment.generate(rng, PROFILE)
        if rng.random() < 0.6:
            # ... on one accepting exit through `txn`, on the others through `gtxn i`
            prog = ([("txn", rng.choice(["Amount", "NumAppArgs", "AssetAmount"])), ("bnz", "VIA_GROUP_SLOT")]
                    + guard_prefix(rng, ("self",), dets) + [("int", 1), ("return",), ("label", "VIA_GROUP_SLOT")]
                    + guard_prefix(rng, ("abs", i), dets) + c["prog"])
        else:
            prog = guard_prefix(rng, ("abs", i), dets) + c["prog"]
        contracts = {"selfA": (prog, max(c["version"], T.min_version(prog)), "LogicSig")}
        a = {"id": "TB", "type": "txn", "lsig": "selfA", "app": None, "has_lsig": True, "abs": i, "rel": {}}
        return {"contracts": contracts, "txns": [a], "guard": {"mode": "match", "dets": dets, "access": ("own-abs", i)}}
    access = ("rel", rng.choice([1, 2, 3, -1, -2])) if rng.random() < 0.6 else ("abs", rng.choice([0, 1, 2, 3]))
    c = fragment.generate(rng, PROFILE)
    progA = guard_prefix(rng, access, dets) + c["prog"]
    kindA = rng.choice(["LogicSig", "ApprovalProgram"])
    contracts = {"guardA": (progA, max(c["version"], T.min_version(progA)), kindA)}
    a = {"id": "TA", "type": "appl" if kindA == "ApprovalProgram" else "txn", "lsig": "guardA" if kindA == "LogicSig" else None,
         "app": "guardA" if kindA == "ApprovalProgram" else None, "has_lsig": kindA == "LogicSig", "abs": None, "rel": {}}
    b = {"id": "TB", "type": rng.choice(["txn", "pay", "axfer"]), "lsig": None, "app": None, "has_lsig": True, "abs": None, "rel": {}}
    if rng.random() < 0.5:
        cb = fragment.generate(rng, PROFILE)
        contracts["lsigB"] = (cb["prog"], cb["version"], "LogicSig")
        b["lsig"] = "lsigB"
    mode = rng.choice(["match", "match", "mirror", "other"])
    if access[0] == "rel":
        k = access[1]
        a["rel"]["TB"] = {"match": k, "mirror": -k, "other": k + (1 if k > 0 else -1)}[mode]
    else:
        i = access[1]
        b["abs"] = {"match": i, "mirror": i + 1, "other": (i + 2) % 4}[mode]
        if rng.random() < 0.5:
            a["abs"] = (b["abs"] + 1 + rng.randint(0, 1)) % 5 if (b["abs"] + 1) % 5 != b["abs"] else None
            if a["abs"] == b["abs"]:
                a["abs"] = None
    txns = [a, b]
    if rng.random() < 0.5:
        # a bystander with a logic-sig that checks nothing (or little): its verdict must not depend on what the
        # driver decided for the members listed before it
        if rng.random() < 0.6:
            progC = [("int", 1), ("return",)]
            vC = 3
        else:
            cc = fragment.generate(rng, PROFILE)
            progC, vC = cc["prog"], cc["version"]
        contracts["lsigC"] = (progC, vC, "LogicSig")
        txns.append({"id": "TC", "type": rng.choice(["txn", "pay", "axfer"]), "lsig": "lsigC", "app": None, "has_lsig": True,
                     "abs": None, "rel": {}})
    if rng.random() < 0.5:
        rng.shuffle(txns)       # listing order is not part of the meaning of a configuration
    cfg = {"contracts": contracts, "txns": txns, "guard": {"mode": mode, "dets": dets, "access": access}}
    return cfg


def gen_config(rng):
    if rng.random() < 0.4:
        return gen_guarded_config(rng)
    return gen_random_config(rng)


def gen_random_config(rng):
    """Returns dict(contracts={name: (prog, version, kind)}, txns=[...]) - an abstract configuration."""
    n = rng.choice([1, 1, 2, 2, 3])
    contracts = {}
    txns = []
    used_abs = set()
    for i in range(n):
        t = {"id": "T%d" % i, "type": "txn", "lsig": None, "app": None, "has_lsig": False, "abs": None, "rel": {}}
        w = rng.random()
        if w < 0.55:
            name = "lsig%d" % i
            c = fragment.generate(rng, PROFILE)
            contracts[name] = (c["prog"], c["version"], "LogicSig")
            t["lsig"] = name
            t["has_lsig"] = True
            t["type"] = rng.choice(["txn", "pay", "axfer", "txn"])
        elif w < 0.9:
            name = "app%d" % i
            c = fragment.generate(rng, PROFILE)
            contracts[name] = (c["prog"], c["version"], "ApprovalProgram")
            t["app"] = name
            t["type"] = "appl"
            if rng.random() < 0.3:
                t["has_lsig"] = True  # signed by an unknown logic-sig
        else:
            t["has_lsig"] = True       # unknown logic-sig only
            t["type"] = rng.choice(["pay", "txn", "axfer"])
        if rng.random() < 0.5:
            a = rng.choice([0, 1, 2, 3])
            if a not in used_abs:
                t["abs"] = a
                used_abs.add(a)
        txns.append(t)
    # relative offsets / absolute indices between configured transactions: mostly the ones a contract really uses
    # (so that another member's check bears on the judged transaction), sometimes the mirrored or a random one
    for i in range(1, n):
        a, b = (txns[i - 1], txns[i]) if rng.random() < 0.5 else (txns[i], txns[i - 1])
        cname = a["lsig"] or a["app"]
        used_rel, used_abs_reads = [], []
        if cname:
            rd = inputs.Reads(contracts[cname][0])
            used_rel = sorted(set(k for (k, _f) in rd.rel))
            used_abs_reads = sorted(set(i2 for (i2, _f) in rd.abs if i2 < 4))
        w = rng.random()
        if used_rel and w < 0.45:
            a["rel"][b["id"]] = rng.choice(used_rel)                      # b.index = a.index + k, as `a` reads it
        elif used_rel and w < 0.55:
            a["rel"][b["id"]] = -rng.choice(used_rel)                     # mirrored: must NOT clear b
        elif used_abs_reads and w < 0.8 and b["abs"] is None:
            x = rng.choice(used_abs_reads)
            if x not in used_abs:
                b["abs"] = x
                used_abs.add(x)
        elif w < 0.9:
            a["rel"][b["id"]] = rng.choice([1, 1, 2, 3, -1, -1, -2])
    return {"contracts": contracts, "txns": txns}


def satisfiable(cfg):
    """Is there ANY placement of the configured transactions (distinct positions 0..15) honouring every absolute index and
    offset?  Exact (at most 16^3 assignments).  Configurations without one describe no group; verdicts on them are not judged."""
    txns = cfg["txns"]
    ids = [t["id"] for t in txns]
    for combo in itertools.permutations(range(16), len(ids)):
        pos = dict(zip(ids, combo))
        ok = True
        for t in txns:
            if t["abs"] is not None and pos[t["id"]] != t["abs"]:
                ok = False
                break
            for other, k in t["rel"].items():
                if pos[other] != pos[t["id"]] + k:
                    ok = False
                    break
            if not ok:
                break
        if ok:
            return True
    return False


def positions(cfg, rng, limit=6):
    """Assignments txn id -> position consistent with absolute indices and offsets, plus a group size."""
    txns = cfg["txns"]
    ids = [t["id"] for t in txns]
    out = []
    for s in (16, 4, 3, 2, 8, 1):
        cands = []
        for combo in itertools.permutations(range(s), len(ids)) if s <= 4 else (tuple(rng.sample(range(s), len(ids))) for _ in range(60)):
            pos = dict(zip(ids, combo))
            ok = True
            for t in txns:
                if t["abs"] is not None and pos[t["id"]] != t["abs"]:
                    ok = False
                for other, k in t["rel"].items():
                    if pos[other] != pos[t["id"]] + k:
                        ok = False
            if ok:
                cands.append(pos)
        rng.shuffle(cands)
        for pos in cands[:2]:
            out.append((s, pos))
        if len(out) >= limit:
            break
    return out


def write_config(cfg, d):
    import yaml
    contracts = []
    for name, (prog, version, kind) in cfg["contracts"].items():
        src, _ = T.render(prog, version)
        with open(os.path.join(d, name + ".teal"), "w") as f:
            f.write(src)
        contracts.append({"name": name, "file_path": name + ".teal", "type": kind, "version": version, "subroutines": [],
                          "functions": [{"name": "main", "dispatch_path": ["B0"]}]})
    txns = []
    for t in cfg["txns"]:
        e = {"txn_id": t["id"], "txn_type": t["type"]}
        if t["app"]:
            e["application"] = {"contract": t["app"], "function": "main"}
        if t["lsig"]:
            e["logic_sig"] = {"contract": t["lsig"], "function": "main"}
        elif t["has_lsig"]:
            e["has_logic_sig"] = True
        if t["abs"] is not None:
            e["absolute_index"] = t["abs"]
        if t["rel"]:
            e["relative_indexes"] = [{"other_txn_id": o, "offset": k} for o, k in t["rel"].items()]
        txns.append(e)
    y = {"name": "cfg", "contracts": contracts, "groups": [{"operation": "op", "transactions": txns}]}
    path = os.path.join(d, "config.yaml")
    with open(path, "w") as f:
        yaml.safe_dump(y, f, sort_keys=False)
    return path


def eligible(det, t):
    if det in STATELESS:
        if not t["has_lsig"]:
            return False
    else:
        if not t["app"]:
            return False
    if det == "can-close-account" and t["type"] not in ("txn", "pay"):
        return False
    if det == "can-close-asset" and t["type"] not in ("txn", "axfer"):
        return False
    return True


def dangerous_txn(det, t):
    """Field values that make configured transaction t carry det's dangerous value (None if impossible by type)."""
    ty = TYPE_NUM.get(t["type"])
    if t["app"]:
        ty = 6
    d = {}
    if det == "rekey-to":
        d["RekeyTo"] = "ATTACKER"
    elif det == "can-close-account":
        if ty not in (None, 1):
            return None
        ty = 1
        d["CloseRemainderTo"] = "ATTACKER"
    elif det == "can-close-asset":
        if ty not in (None, 4):
            return None
        ty = 4
        d["AssetCloseTo"] = "ATTACKER"
    elif det == "missing-fee-check":
        d["Fee"] = (1 << 64) - 1
    else:
        if ty not in (None, 6):
            return None
        ty = 6
        d["OnCompletion"] = 4 if "updatable" in det else 5
        d["ApplicationID"] = 77
        if det.startswith("unprotected"):
            d["Sender"] = "ATTACKER"
    if ty is not None:
        d["TypeEnum"] = ty
        d.setdefault("OnCompletion", 0)
        d.setdefault("ApplicationID", 77 if ty == 6 else 0)
    return d


def joint_groups(cfg, s, pos, rng, pinned, cap=250):
    """Concrete groups of size s: fields read by any configured contract get representative values; `pinned` =
    {position: {field: value}} is forced."""
    dims = {}
    for t in cfg["txns"]:
        for cname in (t["lsig"], t["app"]):
            if not cname:
                continue
            prog = cfg["contracts"][cname][0]
            reads = inputs.Reads(prog)
            pd = inputs.position_dims(reads, s, pos[t["id"]])
            for p, fields in pd.items():
                for f, consts in fields.items():
                    dims.setdefault((p, f), set()).update(inputs.field_candidates(reads, f, consts) if f not in inputs.KIND_FIELDS else [])
    # configured types
    fixed = {}
    for t in cfg["txns"]:
        ty = 6 if t["app"] else TYPE_NUM.get(t["type"])
        if ty is not None:
            fixed.setdefault(pos[t["id"]], {}).update({"TypeEnum": ty, "OnCompletion": 0, "ApplicationID": 77 if ty == 6 else 0})
    for p, fv in pinned.items():
        fixed.setdefault(p, {}).update(fv)
    keys = [k for k in sorted(dims) if not (k[0] in fixed and k[1] in fixed[k[0]]) and k[1] not in inputs.KIND_FIELDS]
    total = 1
    for k in keys:
        total *= max(1, len(dims[k]))
    if total <= cap:
        combos = itertools.product(*[sorted(dims[k], key=str) for k in keys])
    else:
        combos = ([rng.choice(sorted(dims[k], key=str)) for k in keys] for _ in range(cap))
    for combo in combos:
        g = [dict() for _ in range(s)]
        for p, fv in fixed.items():
            if p < s:
                g[p].update(fv)
        for (p, f), v in zip(keys, combo):
            g[p][f] = v
        for tt in g:
            inputs.normalise(tt)
        # pinned values win over normalisation only if consistent
        okp = all(g[p].get(f) == v for p, fv in pinned.items() if p < s for f, v in fv.items())
        if okp:
            yield g


def approved(cfg, g, pos):
    for t in cfg["txns"]:
        for cname in (t["lsig"], t["app"]):
            if cname:
                prog = cfg["contracts"][cname][0]
                if not avm.run(prog, g, pos[t["id"]])["ok"]:
                    return False
    return True


def check_config(cfg, rng, ctr):
    from tealer.utils.command_line.group_config import read_config_from_file
    from tealer.utils.command_line.common import init_tealer_from_config
    from pathlib import Path
    viols = []
    d = tempfile.mkdtemp(prefix="vt_c13_")
    try:
        path = write_config(cfg, d)
        try:
            with observe.Quiet():
                gc = read_config_from_file(Path(path))
                tealer = init_tealer_from_config(gc)
        except (Exception, SystemExit) as e:
            # every generated configuration is well-formed; one that also describes a group (exact placement test) must be
            # accepted - a rejection gives no verdict for any of its transactions
            if satisfiable(cfg):
                import traceback
                ctr["configurations"] += 1
                return [{"kind": "valid-configuration-rejected", "key": type(e).__name__,
                         "what": "a well-formed, satisfiable configuration was rejected: %s: %s" % (type(e).__name__, str(e)[:200]),
                         "trace": traceback.format_exc()[-600:], "config": {"txns": cfg["txns"]}}], False
            raise
        classes = observe.detector_classes()
        reported = {}
        with observe.Quiet():
            for det in GROUP_DETECTORS:
                tealer.register_detector(classes[det])
            for dobj in tealer.detectors:
                try:
                    outs = dobj.detect()
                except Exception as e:   # the configuration was accepted and analysed; a detector that raises gives no verdict at all
                    import traceback
                    ctr["configurations"] += 1
                    return [{"kind": "group-detector-raised", "key": dobj.NAME,
                             "what": "%s raised %s: %s in group mode on an accepted configuration" % (dobj.NAME, type(e).__name__, str(e)[:160]),
                             "trace": traceback.format_exc()[-600:], "config": {"txns": cfg["txns"]}}], False
                ids = set()
                for o in outs:
                    ids.update(t.transacton_id for t in o.transactions)
                reported[dobj.NAME] = ids
        ctr["configurations"] += 1
        # the order in which the members are listed is not part of a configuration's meaning
        if len(cfg["txns"]) > 1 and rng.random() < 0.35:
            cfg2 = dict(cfg, txns=list(reversed(cfg["txns"])))
            d2 = tempfile.mkdtemp(prefix="vt_c13r_")
            try:
                path2 = write_config(cfg2, d2)
                with observe.Quiet():
                    t2 = init_tealer_from_config(read_config_from_file(Path(path2)))
                    for det in GROUP_DETECTORS:
                        t2.register_detector(classes[det])
                    rep2 = {}
                    for dobj in t2.detectors:
                        ids = set()
                        for o in dobj.detect():
                            ids.update(t.transacton_id for t in o.transactions)
                        rep2[dobj.NAME] = ids
                ctr["listing_order_comparisons"] += 1
                for det in GROUP_DETECTORS:
                    if rep2.get(det) != reported.get(det):
                        viols.append({"kind": "verdict-depends-on-listing-order", "key": det,
                                      "what": "%s reports %s, but %s when the same transactions are listed in reverse order" % (
                                          det, sorted(reported.get(det, ())), sorted(rep2.get(det, ()))),
                                      "config": {"txns": cfg["txns"]}})
            finally:
                shutil.rmtree(d2, ignore_errors=True)
        cross = any(t["rel"] or t["abs"] is not None for t in cfg["txns"]) and len(cfg["txns"]) > 1
        if cross:
            ctr["cross_reads_configs"] += 1
        assigns = positions(cfg, rng)
        for det in GROUP_DETECTORS:
            for t in cfg["txns"]:
                if not eligible(det, t):
                    if t["id"] in reported[det]:
                        viols.append({"kind": "ineligible-reported", "key": det, "what": "%s reports %s which is not eligible (%s)" % (det, t["id"], t)})
                    continue
                dv = dangerous_txn(det, t)
                if dv is None:
                    continue
                witness = None
                for s, pos in assigns:
                    for g in joint_groups(cfg, s, pos, rng, {pos[t["id"]]: dv}, cap=120):
                        ctr["groups_executed"] += 1
                        if approved(cfg, g, pos):
                            witness = (s, pos, g)
                            break
                    if witness:
                        break
                if t["id"] not in reported[det]:
                    ctr["cleared_by_tealer"] += 1
                    own_checks = True
                    if not witness:
                        ctr["cleared_and_no_witness_found"] += 1
                if witness:
                    ctr["vulnerable_by_oracle"] += 1
                    if t["id"] not in reported[det]:
                        viols.append({"kind": "vulnerable-not-reported", "key": det,
                                      "what": "%s clears transaction %s although the group %s (positions %s) is approved by every configured contract while %s carries the dangerous value" % (
                                          det, t["id"], witness[2], witness[1], t["id"]),
                                      "config": {"txns": cfg["txns"]}})
        # cleared by the statement: another member's contract starts with an unconditional check of this very
        # transaction's field through the configured offset / absolute index
        g = cfg.get("guard")
        if g and g["mode"] == "match":
            tb = [t for t in cfg["txns"] if t["id"] == "TB"][0]
            for det in g["dets"]:
                if not eligible(det, tb):
                    continue
                ctr["cleared_by_statement_checks"] += 1
                if "TB" in reported[det]:
                    viols.append({"kind": "cleared-by-statement-but-reported", "key": det,
                                  "what": "%s reports TB although TA's contract asserts the safe value of that field for the member at %s, "
                                          "which is where the configuration puts TB" % (det, g["access"]),
                                  "config": {"txns": cfg["txns"]}})
        # general precision oracle: a configured contract excludes the dangerous value of T at every accepting exit,
        # reading T as itself (txn / gtxn <own absolute index>), or as the member at the configured absolute index /
        # offset.  Decided by the abstract walk oracle on the (direct-check) contract.
        from vt.ref import walks as W
        wcache = {}

        def danger_pcs(cname, det, target):
            """(pcs lying on an accepting walk on which the member `target` carries the dangerous value, contract approves
            something at all, exit pcs); None when the oracle does not apply (recursion, state space)."""
            key = (cname, det, target)
            if key not in wcache:
                P = wcache.get(("P", cname))
                prog = cfg["contracts"][cname][0]
                if P is None:
                    P = W.Program(prog)
                    wcache[("P", cname)] = P
                if P.is_recursive():
                    wcache[key] = None
                else:
                    A_ = ("A", "ATTACKER")
                    try:
                        if det == "rekey-to":
                            adm = P.admitted(W.Key("RekeyTo", target=target), A_)
                        elif det == "can-close-account":
                            adm = P.admitted(W.Key("CloseRemainderTo", target=target), A_)
                        elif det == "can-close-asset":
                            adm = P.admitted(W.Key("AssetCloseTo", target=target), A_)
                        elif det == "missing-fee-check":
                            rd = inputs.Reads(prog)
                            consts = set()
                            for k2 in range(len(prog)):
                                v2 = inputs._int_of(prog, k2, rd.intc)
                                if v2 is not None:
                                    consts.add(v2)
                            adm = set()
                            up = set()
                            for f in inputs.uint_reps(consts, extra=(272000, 272001, (1 << 64) - 1), limit=40):
                                if f > 272000:
                                    adm |= P.admitted(W.Key("Fee", target=target), f)
                                    up |= P.admitted(W.Key("Fee", upward=True, target=target), f)
                            if not adm and up:
                                # cleared exactly, but not for a domain that keeps a single upper bound: listed mechanism
                                wcache[("upward-only", cname, det, target)] = True
                        else:
                            adm = {0}
                        # is there an accepting walk at all (for any value)?  a contract that never approves clears nothing useful
                        alive = bool(P.admitted(W.Key("GroupSize"), 16) or P.admitted(W.Key("GroupSize"), 1))
                        exits = set(k2 for k2, ins in enumerate(prog) if ins[0] == "return")
                        if prog and prog[-1][0] not in T.TERMINATORS:
                            exits.add(len(prog) - 1)
                        wcache[key] = (adm, alive, exits)
                    except OverflowError:
                        wcache[key] = None
            return wcache[key]

        def no_dangerous_walk(cname, det, target):
            r = danger_pcs(cname, det, target)
            return bool(r) and r[1] and not r[0]

        def no_dangerous_exit(cname, det, targets):
            """Per accepting exit, the dangerous value is excluded through one of the access modes in `targets` (all of
            them denote the judged transaction): no exit lies on a dangerous walk under every one of the readings."""
            rs = [danger_pcs(cname, det, t_) for t_ in targets]
            if any(r is None for r in rs) or not rs[0][1]:
                return False
            bad = set(rs[0][2])
            for r in rs:
                bad &= r[0]
            return not bad

        if not cfg.get("guard") and not satisfiable(cfg):
            ctr["unsatisfiable_configurations_not_judged"] += 1
        elif not cfg.get("guard"):
            ids = {t["id"]: t for t in cfg["txns"]}
            for det in ("rekey-to", "can-close-account", "can-close-asset", "missing-fee-check"):
                for t in cfg["txns"]:
                    if not eligible(det, t):
                        continue
                    cleared_by = None
                    for cname in (t["lsig"], t["app"]):
                        if cname and no_dangerous_walk(cname, det, "self"):
                            cleared_by = (cname, "txn", ["self"])
                        if cname and t["abs"] is not None and no_dangerous_walk(cname, det, ("abs", t["abs"])):
                            cleared_by = (cname, "gtxn own index %d" % t["abs"], [("abs", t["abs"])])
                        if cname and t["abs"] is not None and not cleared_by and no_dangerous_exit(cname, det, ["self", ("abs", t["abs"])]):
                            cleared_by = (cname, "txn at some exits and gtxn own index %d at the others" % t["abs"], ["self", ("abs", t["abs"])])
                            ctr["cleared_by_mixed_own_access"] += 1
                    for o in cfg["txns"]:
                        if o["id"] == t["id"]:
                            continue
                        for cname in (o["lsig"], o["app"]):
                            if not cname:
                                continue
                            if t["abs"] is not None and no_dangerous_walk(cname, det, ("abs", t["abs"])):
                                cleared_by = (cname, "absolute index %d" % t["abs"], [("abs", t["abs"])])
                            # t.index = o.index + k when o lists t at offset k
                            k = o["rel"].get(t["id"])
                            if k is not None and no_dangerous_walk(cname, det, ("rel", k)):
                                cleared_by = (cname, "offset %+d" % k, [("rel", k)])
                    if cleared_by:
                        ctr["cleared_by_statement_checks"] += 1
                        ctr["cleared_by_walk_oracle"] += 1
                        if t["id"] in reported[det]:
                            upward_only = det == "missing-fee-check" and any(wcache.get(("upward-only", cleared_by[0], det, tg)) for tg in cleared_by[2])
                            viols.append({"kind": "cleared-by-statement-but-reported", "key": det,
                                          "mechanism": "fee-domain-keeps-no-lower-bound" if upward_only else None,
                                          "what": "%s reports %s although contract %s excludes the dangerous value on every accepting walk when it reads that transaction through %s" % (
                                              det, t["id"], cleared_by[0], cleared_by[1]),
                                          "config": {"txns": cfg["txns"]}})
        # degenerate: one transaction, one contract -> single-contract verdict
        if len(cfg["txns"]) == 1 and (cfg["txns"][0]["lsig"] or cfg["txns"][0]["app"]) and not (cfg["txns"][0]["lsig"] and cfg["txns"][0]["app"]):
            t = cfg["txns"][0]
            cname = t["lsig"] or t["app"]
            prog, version, kind = cfg["contracts"][cname]
            src, _ = T.render(prog, version)
            obs = observe.analyse(src, "single")
            res = observe.run_detectors(obs, GROUP_DETECTORS)
            for det in GROUP_DETECTORS:
                if not eligible(det, t) or t["abs"] is not None:
                    continue
                if t["type"] not in ("txn", "appl"):
                    continue
                ctr["degenerate_comparisons"] += 1
                single = bool(observe.paths_of(res[det]))
                grp = t["id"] in reported[det]
                if single != grp:
                    viols.append({"kind": "degenerate-verdict-differs", "key": det,
                                  "what": "%s: one transaction running one contract is %s in group mode but the single-contract run reports %s" % (
                                      det, "vulnerable" if grp else "cleared", "paths" if single else "no path"),
                                  "src": src})
        return viols, cross
    finally:
        shutil.rmtree(d, ignore_errors=True)


def run_batch(spec):
    import signal
    common.import_tealer()
    rng = common.rng_for(PROP, spec["batch"], spec["seed"])
    ctr = Ctr()
    out = {"violations": [], "nontrivial": [], "samples": [], "cases": 0, "inconclusive": 0, "notes": []}
    allv = []

    class TO(BaseException):
        pass

    def _al(*a):
        raise TO()

    signal.signal(signal.SIGALRM, _al)
    for n in range(spec["n"]):
        cfg = gen_config(rng)
        signal.alarm(120)
        try:
            viols, cross = check_config(cfg, rng, ctr)
        except TO:
            out["inconclusive"] += 1
            continue
        except SystemExit:
            out["inconclusive"] += 1
            ctr["config_rejected"] += 1
            continue
        except Exception:
            import traceback
            out["inconclusive"] += 1
            if len(out["notes"]) < 2:
                out["notes"].append({"raised": traceback.format_exc()[-800:]})
            continue
        finally:
            signal.alarm(0)
        common.release_tealer_caches()
        out["cases"] += 1
        srcs = {k: T.render(v[0], v[1])[0] for k, v in cfg["contracts"].items()}
        if cross:
            out["nontrivial"].append(common.h([srcs, cfg["txns"]]))
        for v in viols:
            v["contracts"] = srcs
            v["txns"] = cfg["txns"]
            v["src"] = v.get("src") or common.h([srcs, cfg["txns"]])
            v.setdefault("mechanism", None)
            allv.append(v)
        if len(out["samples"]) < 1 and len(cfg["txns"]) >= 2:
            out["samples"].append({"txns": cfg["txns"], "contracts": {k: s[:400] for k, s in srcs.items()}})
    seen = {}
    for v in allv:
        seen.setdefault((v["kind"], v["key"], v["src"]), v)
    out["violations"] = list(seen.values())[:30]
    out["counters"] = dict(ctr)
    return out


def replay(case):
    return {"violations": [dict(case)], "cases": 1, "counters": {}}


def coverage(m, tier):
    return {
        "rule": "generated configurations of 1-3 transactions (logic-sig / application / unknown logic-sig; absolute indices, "
                "relative offsets of both signs, types) x concrete groups at several sizes and placements; non-trivial = distinct "
                "configurations with >= 2 transactions linked by an absolute index or an offset",
        "evaluations": m["counters"].get("configurations", 0),
    }
