"""C16 - each source line parses to the instruction it denotes, and prints back.

Monitor: parse_line(line) / str(instruction) / recorded line numbers, against the ground truth of the line
generator (vt/gen/lines.py, driven by the AVM table) and an independent reference line grammar with its own
literal decoders (int radix, hex / base64 / base32 / quoted strings).
"""
import base64
import re

from vt import common
from vt.gen import lines
from vt.spec import avm_table as A

PROP = "C16"
ASSUMPTIONS = [
    "ground truth = what the generator rendered (opcode, field, immediates) from vt/spec/avm_table.py",
    "reference literal decoders in this file (Go-style integer prefixes, RFC 4648 base64/base32, TEAL string escapes)",
    "the printed form may re-spell a literal (e.g. base64 -> hex); it must denote the same value",
]
DECIDING_COUNTERS = ["lines_checked", "opcode_field_pairs_checked", "roundtrips_checked", "program_lines_checked"]

UNKNOWN_OPS = ["box_splice", "box_resize", "ec_add", "ec_scalar_mul", "ec_pairing_check", "mimc", "falcon_verify",
               "online_stake", "voter_params_get VoterBalance", "sumhash512", "foo", "intx 5", "gloadsss", "pushbyte 0x00",
               "txnn Fee", "bnzz l1", "assertt", "Int 5", "TXN Fee"]


class Ctr(dict):
    def __missing__(self, k):
        return 0


def plan(tier, seed, scale=1.0):
    nb = 32
    per = max(20, int((6000 if tier == "quick" else 80000) * scale))
    return [{"batch": b, "nb": nb, "n": per, "seed": seed, "tier": tier} for b in range(nb)]


# ---------------------------------------------------------------- reference literal decoders

def ref_int(tok):
    if re.fullmatch(r"0[xX][0-9a-fA-F]+", tok):
        return int(tok[2:], 16)
    if re.fullmatch(r"0[0-7]+", tok):
        return int(tok, 8)
    if re.fullmatch(r"-?[0-9]+", tok):
        return int(tok)
    return None


def ref_string(tok):
    """Decode a TEAL quoted string literal."""
    body = tok[1:-1]
    out = bytearray()
    i = 0
    while i < len(body):
        c = body[i]
        if c == "\\" and i + 1 < len(body):
            n = body[i + 1]
            if n == "n":
                out.append(10)
                i += 2
            elif n == "t":
                out.append(9)
                i += 2
            elif n == "r":
                out.append(13)
                i += 2
            elif n == "\\":
                out.append(92)
                i += 2
            elif n == '"':
                out.append(34)
                i += 2
            elif n == "x" and i + 3 < len(body):
                out.append(int(body[i + 2:i + 4], 16))
                i += 4
            else:
                out.append(ord(c))
                i += 1
        else:
            out.extend(c.encode("utf-8"))
            i += 1
    return bytes(out)


def tokenize(text):
    """Reference tokeniser: whitespace separated, quoted strings kept whole, `//` outside quotes starts a comment."""
    toks, i, n = [], 0, len(text)
    while i < n:
        if text[i].isspace():
            i += 1
            continue
        if text.startswith("//", i):
            break
        if text[i] == '"':
            j = i + 1
            while j < n and not (text[j] == '"' and text[j - 1] != "\\"):
                j += 1
            toks.append(text[i:j + 1])
            i = j + 1
            continue
        j = i
        while j < n and not text[j].isspace():
            j += 1
        toks.append(text[i:j])
        i = j
    return toks


def ref_bytes_list(toks):
    """Decode a sequence of byte-literal tokens (all assembler spellings). Returns list of bytes or None."""
    out, i = [], 0
    while i < len(toks):
        t = toks[i]
        if t in ("base64", "b64", "base32", "b32"):
            if i + 1 >= len(toks):
                return None
            data = toks[i + 1]
            i += 2
            try:
                out.append(_b64(data) if t in ("base64", "b64") else _b32(data))
            except Exception:
                return None
        elif re.match(r"^(base64|b64)\(.*\)$", t):
            try:
                out.append(_b64(t[t.index("(") + 1:-1]))
            except Exception:
                return None
            i += 1
        elif re.match(r"^(base32|b32)\(.*\)$", t):
            try:
                out.append(_b32(t[t.index("(") + 1:-1]))
            except Exception:
                return None
            i += 1
        elif t.startswith("0x") or t.startswith("0X"):
            try:
                out.append(bytes.fromhex(t[2:]))
            except ValueError:
                return None
            i += 1
        elif t.startswith('"') and t.endswith('"') and len(t) >= 2:
            out.append(ref_string(t))
            i += 1
        else:
            return None
    return out


def _b64(s):
    return base64.b64decode(s + "=" * (-len(s) % 4), validate=True)


def _b32(s):
    s = s.rstrip("=")
    return base64.b32decode(s + "=" * (-len(s) % 8))


def ref_parse(text):
    """(opcode, [decoded immediates]) per the AVM table's immediate kinds; None if not in the reference grammar."""
    toks = tokenize(text)
    if not toks:
        return None
    op = toks[0]
    if op not in A.OPS:
        return None
    kinds = A.OPS[op]["imm"]
    rest = toks[1:]
    out = []
    for k in kinds:
        if k == "uint8?":
            if rest:
                v = ref_int(rest.pop(0))
                if v is None:
                    return None
                out.append(v)
        elif k in ("uint8", "int8"):
            if not rest:
                return None
            v = ref_int(rest.pop(0))
            if v is None:
                return None
            out.append(v)
        elif k == "uint64":
            if not rest:
                return None
            t = rest.pop(0)
            v = ref_int(t)
            out.append(v if v is not None else t)
        elif k == "uint64*":
            vs = [ref_int(t) for t in rest]
            if any(v is None for v in vs):
                return None
            rest = []
            out.append(vs)
        elif k == "bytes":
            bs = ref_bytes_list(rest)
            if bs is None or len(bs) != 1:
                return None
            rest = []
            out.append(bs[0])
        elif k == "bytes*":
            bs = ref_bytes_list(rest)
            if bs is None:
                return None
            rest = []
            out.append(bs)
        elif k == "label*":
            out.append(list(rest))
            rest = []
        else:
            if not rest:
                return None
            out.append(rest.pop(0))
    if rest:
        return None
    return op, out


def truth_of(s):
    return s["op"], [v for _k, v in s["imms"]]


# ---------------------------------------------------------------- the monitor

def check_line(s, text, parse_line, ParseError, Unsupported, ctr, viols, class_of):
    op, want = truth_of(s)
    ctr["lines_checked"] += 1
    try:
        ins = parse_line(text)
    except ParseError as e:
        viols.append(("valid-line-rejected", op, "parse_line(%r) raised ParseError: %s" % (text, e)))
        return
    except Exception as e:
        viols.append(("parse-crash", op, "parse_line(%r) raised %s: %s" % (text, type(e).__name__, e)))
        return
    if ins is None:
        viols.append(("line-dropped", op, "parse_line(%r) returned None" % text))
        return
    if isinstance(ins, Unsupported):
        viols.append(("known-opcode-unsupported", op, "parse_line(%r) -> %s" % (text, ins)))
        return
    printed = str(ins)
    got = ref_parse(printed)
    if got is None:
        viols.append(("printed-form-not-teal", op, "parse_line(%r) prints %r, which the reference grammar does not accept as %s" % (text, printed, op)))
        return
    if got[0] != op:
        viols.append(("opcode-confused", op, "parse_line(%r) prints %r: opcode %s instead of %s" % (text, printed, got[0], op)))
        return
    if got[1] != want:
        viols.append(("immediates-differ", op, "parse_line(%r) prints %r = %s, ground truth %s" % (text, printed, got[1], want)))
        return
    cname = type(ins).__name__
    prev = class_of.setdefault(cname, op)
    if prev != op and not (prev.split("_")[0] == op.split("_")[0] and cname.endswith("Instruction")):
        viols.append(("class-shared-by-opcodes", op, "class %s is produced for %s and for %s" % (cname, prev, op)))
    # source_code / comment bookkeeping
    if ins.source_code != text:
        viols.append(("source-code-attr", op, "source_code %r != line %r" % (ins.source_code, text)))
    # print -> parse -> print is a fixpoint with the same class
    ctr["roundtrips_checked"] += 1
    try:
        again = parse_line(printed)
    except Exception as e:
        viols.append(("printed-form-rejected", op, "parse_line(str(ins)) raised %s on %r" % (type(e).__name__, printed)))
        return
    if again is None or type(again) is not type(ins) or str(again) != printed:
        viols.append(("roundtrip", op, "%r -> %r -> %r (%s -> %s)" % (text, printed, str(again), cname, type(again).__name__)))


def run_batch(spec):
    common.import_tealer()
    from tealer.teal.instructions.parse_instruction import parse_line, ParseError
    from tealer.teal.instructions.instructions import UnsupportedInstruction, Label
    from vt.mon import observe

    rng = common.rng_for(PROP, spec["batch"], spec["seed"])
    ctr = Ctr()
    viols = []
    nontrivial = []
    class_of = {}
    out = {"violations": [], "nontrivial": [], "samples": [], "cases": 0, "inconclusive": 0, "notes": []}
    ops = lines.all_ops()
    # exhaustive opcode x field pass (split over the batches)
    pairs = []
    for op in ops:
        fk = [k for k in A.OPS[op]["imm"] if k in A.FIELD_TABLES]
        if not fk:
            pairs.append((op, None))
        for k in fk:
            for f in lines.field_names(k):
                pairs.append((op, f))
    mine = [p for i, p in enumerate(pairs) if i % spec["nb"] == spec["batch"]]
    with observe.Quiet():
        for op, f in mine:
            s = lines.sample(op, rng, field=f)
            check_line(s, s["text"], parse_line, ParseError, UnsupportedInstruction, ctr, viols, class_of)
            ctr["opcode_field_pairs_checked"] += 1
            nontrivial.append(common.h([op, f, "plain"]))
            out["cases"] += 1
        # random lines with decoration
        for _ in range(spec["n"]):
            op = rng.choice(ops)
            s = lines.sample(op, rng)
            text = lines.decorate(s["text"], rng)
            check_line(s, text, parse_line, ParseError, UnsupportedInstruction, ctr, viols, class_of)
            form = tuple(k for k, _v in s["imms"]) + (("deco",) if text != s["text"] else ())
            nontrivial.append(common.h([op, form, len(text) % 7]))
            out["cases"] += 1
        # labels
        for _ in range(10):
            name = rng.choice(["main", "l1", "loop_2", "A.b", "x9"])
            text = lines.decorate(name + ":", rng)
            try:
                ins = parse_line(text)
                if not isinstance(ins, Label) or ins.label != name or str(ins) != name + ":":
                    viols.append(("label", "label", "parse_line(%r) -> %r" % (text, ins)))
            except Exception as e:
                viols.append(("label", "label", "parse_line(%r) raised %s" % (text, e)))
            ctr["lines_checked"] += 1
            out["cases"] += 1
        # unknown opcodes are kept verbatim as unsupported
        for u in UNKNOWN_OPS:
            text = lines.decorate(u, rng) if '"' not in u else u
            want = " ".join(tokenize(text))
            try:
                ins = parse_line(text)
            except Exception as e:
                viols.append(("unknown-opcode-rejected", u.split()[0], "parse_line(%r) raised %s: %s" % (text, type(e).__name__, e)))
                continue
            ctr["unknown_opcodes_checked"] += 1
            out["cases"] += 1
            if not isinstance(ins, UnsupportedInstruction):
                viols.append(("unknown-opcode-accepted", u.split()[0], "parse_line(%r) -> %s %r" % (text, type(ins).__name__, str(ins))))
            elif ins.verbatim_line != want:
                viols.append(("unknown-opcode-not-verbatim", u.split()[0], "parse_line(%r) keeps %r, expected %r" % (text, ins.verbatim_line, want)))
        # whole programs: recorded line numbers are the 1-based source lines
        from tealer.teal.parse_teal import parse_teal
        for _ in range(max(2, spec["n"] // 200)):
            body = ["#pragma version 8"]
            truth = {}
            for _k in range(rng.randint(3, 25)):
                w = rng.random()
                if w < 0.2:
                    body.append(rng.choice(["", "   ", "// only a comment", "\t// x"]))
                    continue
                op = rng.choice([o for o in ops if A.OPS[o].get("ctrl") is None and "label" not in A.OPS[o]["imm"]
                                 and "label*" not in A.OPS[o]["imm"]])
                s = lines.sample(op, rng)
                body.append(lines.decorate(s["text"], rng))
                truth[len(body)] = s
            body.append("int 1")
            src = "\n".join(body) + "\n"
            try:
                teal = parse_teal(src)
            except SystemExit:
                viols.append(("program-rejected", "program", "parse_teal exited on a program of valid lines"))
                continue
            except Exception as e:
                viols.append(("program-crash", "program", "parse_teal raised %s: %s" % (type(e).__name__, e)))
                continue
            out["cases"] += 1
            got_lines = sorted(i.line for i in teal.instructions)
            want_lines = sorted([1] + list(truth) + [len(body)])
            if got_lines != want_lines:
                viols.append(("line-numbers", "program", "instruction lines %s, source lines with instructions %s" % (got_lines, want_lines)))
            for ins in teal.instructions:
                ctr["program_lines_checked"] += 1
                s = truth.get(ins.line)
                if s is None:
                    continue
                got = ref_parse(str(ins))
                if got is None or got[0] != s["op"] or got[1] != truth_of(s)[1]:
                    viols.append(("line-number-content", s["op"], "line %d holds %r but the instruction recorded there prints %r" % (ins.line, s["text"], str(ins))))
    seen = {}
    for kind, op, what in viols:
        key = (kind, op)
        if key not in seen:
            seen[key] = {"kind": kind, "key": op, "what": what, "src": what, "mechanism": None}
    out["violations"] = list(seen.values())[:80]
    out["nontrivial"] = nontrivial
    out["counters"] = dict(ctr)
    if spec["batch"] == 0:
        s = lines.sample("gtxnsa", rng)
        out["samples"] = [{"line": lines.decorate(s["text"], rng), "truth": str(truth_of(s))},
                          {"exhaustive_opcode_field_pairs": len(pairs)}]
    return out


def replay(case):
    common.import_tealer()
    return {"violations": [dict(case)], "cases": 1, "counters": {}}


def coverage(m, tier):
    return {
        "rule": "every opcode of TEAL v1-v8 x every field it can take (exhaustive, plain spelling) plus random lines with "
                "immediates from their grammars (int radix, byte-literal spellings, lists, labels, named constants) and "
                "whitespace/comment decoration, labels, unknown opcodes, and whole programs for line numbers; non-trivial = "
                "distinct (opcode, immediate form, decoration) combinations",
        "exhaustive": True,
    }
