"""C04 - the CFG is well-formed and over-approximates real control flow.

Monitor: static invariants of parse_teal(src).bbs (and of Function.blocks for a sample) against the
reference instruction-level successor relation, plus concrete pc traces of the reference interpreter
replayed as walks in tealer's graph with an explicit call stack.
"""
import random

from vt import common
from vt.gen import layout, fragment, teal as T
from vt.ref.cfg import RefCFG, TRANSFER
from vt.ref import avm
from vt.mon import observe
from vt import classify

PROP = "C04"
ASSUMPTIONS = [
    "reference successor relation transcribed from the AVM spec (vt/ref/cfg.py)",
    "reference interpreter for branch/call semantics (vt/ref/avm.py)",
    "programs are assembler-valid by construction (unique defined labels, version high enough)",
]
DECIDING_COUNTERS = ["blocks_checked", "trace_steps_checked", "layouts_with_dead_code"]


def plan(tier, seed, scale=1.0):
    n_batches, per = (32, 500) if tier == "quick" else (160, 2500)
    per = max(10, int(per * scale))
    return [{"batch": b, "n": per, "seed": seed, "tier": tier} for b in range(n_batches)]


def full_prog(prog, version):
    return [("#pragma", "version", version)] + list(prog)


def static_graph_checks(blocks, ref, label, viol, ctr, global_edges=False):
    """blocks: list of tealer BasicBlock forming a graph; ref: RefCFG over full program (line = k+1)."""
    by_first = {}
    ids = set(id(b) for b in blocks)
    seen_lines = {}
    for b in blocks:
        ctr["blocks_checked"] += 1
        lines = [i.line for i in b.instructions]
        if not lines:
            viol.append(("empty-block", "%s: block B%s has no instructions" % (label, b.idx)))
            continue
        if lines[0] >= (1 << 16):
            continue  # tealer's synthetic error block in dispatch-path functions
        by_first[lines[0]] = b
        for a, c in zip(lines, lines[1:]):
            if c != a + 1:
                viol.append(("not-consecutive", "%s: block at line %d holds lines %s" % (label, lines[0], lines)))
                break
        for ln in lines:
            if ln in seen_lines:
                viol.append(("line-in-two-blocks", "%s: line %d in two blocks" % (label, ln)))
            seen_lines[ln] = b
        targets = ref.jump_targets()
        for ln in lines[1:]:
            if (ln - 1) in targets:
                viol.append(("entered-in-middle", "%s: line %d is a jump target inside block starting at %d" % (label, ln, lines[0])))
        for ln in lines[:-1]:
            if ref.prog[ln - 1][0] in TRANSFER:
                viol.append(("left-in-middle", "%s: line %d transfers control inside block starting at %d" % (label, ln, lines[0])))
        for ln in lines[1:]:
            if ref.prog[ln - 2][0] in TRANSFER:
                viol.append(("follows-transfer", "%s: line %d follows a transfer inside block" % (label, ln)))
    for b in blocks:
        lines = [i.line for i in b.instructions]
        if not lines or lines[0] >= (1 << 16):
            continue
        for n in b.next:
            if id(n) not in ids:
                viol.append(("next-outside-graph", "%s: block at line %d has successor outside the graph (line %s)" % (label, lines[0], n.entry_instr.line)))
            elif n.next.__class__ is list and b.next.count(n) != n.prev.count(b):
                viol.append(("next-prev-mismatch", "%s: edge %d->%d next x%d prev x%d" % (label, lines[0], n.entry_instr.line, b.next.count(n), n.prev.count(b))))
        for p in b.prev:
            if id(p) not in ids:
                viol.append(("prev-outside-graph", "%s: block at line %d has predecessor outside the graph (line %s)" % (label, lines[0], p.entry_instr.line)))
            elif p.next.count(b) != b.prev.count(p):
                viol.append(("next-prev-mismatch", "%s: edge %d->%d prev x%d next x%d" % (label, p.entry_instr.line, lines[0], b.prev.count(p), p.next.count(b))))
        if len(set(id(x) for x in b.next)) != len(b.next):
            viol.append(("duplicate-successor", "%s: block at line %d lists a successor twice" % (label, lines[0])))
        k = lines[-1] - 1
        want = sorted(set(s + 1 for s in ref.local_succ[k]))
        got = sorted(set(n.entry_instr.line for n in b.next if n.entry_instr.line < (1 << 16)))
        errblocks = [n for n in b.next if n.entry_instr.line >= (1 << 16)]
        if not errblocks and want != got:
            viol.append(("successor-set", "%s: block ending at line %d (%s) has successors %s, reference %s" % (label, k + 1, ref.prog[k][0], got, want)))
        op = ref.prog[k][0]
        if op in ("bz", "bnz") and not errblocks:
            tgt = ref.labels[ref.prog[k][1]] + 1
            fall = k + 2 if k + 1 < ref.n else None
            if len(b.next) == 2:
                if b.next[0].entry_instr.line != fall or b.next[1].entry_instr.line != tgt:
                    viol.append(("branch-order", "%s: %s at line %d: next = %s, expected [fall-through %s, target %s]" % (label, op, k + 1, [x.entry_instr.line for x in b.next], fall, tgt)))
            elif len(b.next) == 1:
                if not (fall is None or fall == tgt):
                    viol.append(("branch-single-successor", "%s: %s at line %d has one successor although fall-through %s != target %s" % (label, op, k + 1, fall, tgt)))
            ctr["cond_branches_checked"] += 1
    return seen_lines


def walk_check(teal, prog, ref, rng, viol, ctr, n_inputs=6):
    """Concrete traces must be walks of tealer's graph (teal.bbs with call/return semantics)."""
    line_block = {}
    for b in teal.bbs:
        for i in b.instructions:
            line_block[i.line] = b
    for _ in range(n_inputs):
        g = [{"Fee": rng.getrandbits(60), "Amount": rng.randint(0, 3)}]
        r = avm.run(prog, g, 0, max_steps=400)
        trace = r["trace"]
        if not trace:
            continue
        ctr["traces"] += 1
        if r["ok"]:
            ctr["accepting_traces"] += 1
        cur = line_block.get(1)
        if cur is None:
            viol.append(("entry-missing", "line 1 not in any block"))
            return
        stack = []
        prev_pc = -1  # pragma (index -1 in prog numbering) precedes pc 0
        bad = False
        for pc in trace:
            ln = pc + 2
            b = line_block.get(ln)
            if b is None:
                viol.append(("executed-line-not-in-graph", "executed line %d is in no block" % ln))
                bad = True
                break
            entering = (ln == b.entry_instr.line)
            if not entering:
                if b is not cur or pc != prev_pc + 1:
                    viol.append(("mid-block-entry", "execution entered block at line %d in the middle (line %d)" % (b.entry_instr.line, ln)))
                    bad = True
                    break
            else:
                # transition cur -> b
                last = cur.exit_instr
                op = prog[prev_pc][0] if prev_pc >= 0 else "#pragma"
                ctr["trace_steps_checked"] += 1
                if op == "callsub":
                    stack.append(cur)
                    ok = cur.is_callsub_block and cur.called_subroutine.entry is b
                    if not ok:
                        viol.append(("callsub-edge", "callsub at line %d went to line %d, tealer's callee entry is %s" % (prev_pc + 2, ln, getattr(getattr(cur, 'called_subroutine', None), 'entry', None))))
                        bad = True
                        break
                    ctr["call_steps"] += 1
                elif op == "retsub":
                    if not stack:
                        break
                    c = stack.pop()
                    rp = c.sub_return_point
                    if rp is not b:
                        viol.append(("return-edge", "retsub at line %d resumed at line %d, tealer's return point of the matching callsub (line %d) is %s" % (prev_pc + 2, ln, c.exit_instr.line, rp.entry_instr.line if rp else None)))
                        bad = True
                        break
                    ctr["return_steps"] += 1
                else:
                    if last.line != prev_pc + 2:
                        viol.append(("left-before-end", "execution left block at line %d from line %d, not from its last instruction" % (cur.entry_instr.line, prev_pc + 2)))
                        bad = True
                        break
                    if b not in cur.next:
                        viol.append(("edge-missing", "execution went from line %d to line %d; block successors are %s" % (prev_pc + 2, ln, [x.entry_instr.line for x in cur.next])))
                        bad = True
                        break
                cur = b
            prev_pc = pc
        if bad:
            return


def shape_hash(teal):
    return common.h([[b.entry_instr.line, len(b.instructions), [n.entry_instr.line for n in b.next]] for b in teal.bbs])


def check_program(prog, version, rng, ctr, do_function):
    """Returns (violations [(kind, what)], nontrivial_key or None)."""
    src, _ = T.render(prog, version)
    viol = []
    full = full_prog(prog, version)
    ref = RefCFG(full)
    teal, _out, _err = observe.parse_only(src)
    # A. retained set
    got_lines = sorted(i.line for b in teal.bbs for i in b.instructions)
    want_lines = sorted(k + 1 for k in ref.retained)
    if got_lines != want_lines:
        extra = sorted(set(got_lines) - set(want_lines))
        missing = sorted(set(want_lines) - set(got_lines))
        viol.append(("retained-set", "blocks hold lines not retained %s / miss retained lines %s" % (extra[:8], missing[:8])))
    firsts = [b.entry_instr.line for b in teal.bbs]
    if firsts != sorted(firsts):
        viol.append(("block-order", "blocks not in source order: %s" % firsts[:10]))
    static_graph_checks(teal.bbs, ref, "contract", viol, ctr)
    walk_check(teal, prog, ref, rng, viol, ctr)
    dead = len(ref.retained) < ref.n
    if dead:
        ctr["layouts_with_dead_code"] += 1
    back = any(s <= k for k in ref.retained for s in ref.local_succ[k])
    coincide = any(full[k][0] in ("bz", "bnz") and ref.labels[full[k][1]] == k + 1 for k in ref.retained)
    lastxfer = full[-1][0] in ("bz", "bnz", "b", "callsub", "switch", "match", "label")
    for name, flag in (("back_edge", back), ("coinciding_targets", coincide), ("last_line_transfer", lastxfer)):
        if flag:
            ctr["layouts_with_" + name] += 1
    nontrivial = shape_hash(teal) if (dead or back or coincide or lastxfer) else None
    if do_function and ref.disjoint():
        try:
            o = observe.analyse(src)
        except Exception as e:  # crash is C17's business; here the function graph is simply unobservable
            ctr["function_build_crashed"] += 1
            o = None
        if o is not None:
            ctr["functions_checked"] += 1
            static_graph_checks(o.function.blocks, ref, "function", viol, ctr)
            fl = sorted(i.line for b in o.function.blocks for i in b.instructions)
            # the whole-contract function holds main plus the subroutines transitively called from it
            reach = set(ref.main_members)
            work = [name for k, name in ref.callsites if k in ref.main_members]
            done = set()
            while work:
                nm = work.pop()
                if nm in done:
                    continue
                done.add(nm)
                reach |= ref.sub_members[nm]
                work.extend(name for k, name in ref.callsites if k in ref.sub_members[nm])
            want_f = sorted(k + 1 for k in reach)
            if fl != want_f:
                viol.append(("function-retained-set", "function blocks hold lines %s, reference %s" % (fl[:12], want_f[:12])))
    return src, viol, nontrivial


def run_batch(spec):
    rng = common.rng_for(PROP, spec["batch"], spec["seed"])
    ctr = _Ctr()
    out = {"violations": [], "nontrivial": [], "samples": [], "cases": 0, "inconclusive": 0}
    for n in range(spec["n"]):
        w = rng.random()
        if w < 0.45:
            prog, version, kind = layout.generate(rng, "disjoint"), 8, "layout-disjoint"
        elif w < 0.8:
            prog, version, kind = layout.generate(rng, "free"), 8, "layout-free"
        else:
            c = fragment.generate(rng)
            prog, version, kind = c["prog"], c["version"], "fragment"
        ctr["programs_" + kind] += 1
        try:
            src, viol, nt = check_program(prog, version, rng, ctr, do_function=(n % 10 == 0))
        except Exception as e:
            import traceback
            src, _ = T.render(prog, version)
            viol = [("parse-crash", "parse_teal raised %s: %s" % (type(e).__name__, str(e)[:200]))]
            nt = None
            ctr["parse_crashes"] += 1
        out["cases"] += 1
        if nt:
            out["nontrivial"].append(nt)
        for kind_v, what in viol[:3]:
            v = {"kind": kind_v, "what": what, "src": src, "prog": prog, "version": version, "gen": kind}
            v["mechanism"] = classify.c04(v)
            out["violations"].append(v)
        if n < 2:
            out["samples"].append({"gen": kind, "src": src})
    out["counters"] = dict(ctr)
    return out


def replay(case):
    ctr = _Ctr()
    rng = random.Random(0)
    prog = [tuple(i) for i in case["prog"]]
    src, viol, _ = check_program(prog, case["version"], rng, ctr, True)
    out = {"violations": [], "cases": 1, "counters": dict(ctr)}
    for kind_v, what in viol:
        v = {"kind": kind_v, "what": what, "src": src, "prog": prog, "version": case["version"]}
        v["mechanism"] = classify.c04(v)
        out["violations"].append(v)
    return out


class _Ctr(dict):
    def __missing__(self, k):
        return 0


def coverage(m, tier):
    c = m["counters"]
    return {
        "evaluations": m["cases"],
        "rule": "layouts from vt/gen/layout.py (disjoint and free modes) and fragment programs; a case is non-trivial "
                "when its CFG has a dead block, a back edge, a conditional branch whose two targets coincide, or a "
                "transfer/label as last line; distinct = distinct hash of tealer's block/edge structure",
        "states": c.get("blocks_checked", 0),
        "transitions": c.get("trace_steps_checked", 0),
    }
