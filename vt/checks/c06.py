"""C06 - per-block GroupSize / GroupIndex sets are sound (concrete executions) and exact (direct checks).

Soundness monitor: every accepting execution (size s, own index j) must find s in group_sizes(b) and j in
group_indices(b) for every block b it visits.  Exactness monitor: see vt/checks/exact.py (abstract walks).
"""
from vt import common, classify
from vt.checks import fragcheck, frag, exact

PROP = "C06"
ASSUMPTIONS = [
    "reference interpreter vt/ref/avm.py decides acceptance",
    "abstract walk oracle vt/ref/walks.py decides exactness on the direct-check fragment",
    "executed instructions are mapped to tealer blocks by source line",
]
DECIDING_COUNTERS = ["block_visits_checked", "accepting_executions"]


def evaluate(case, ctr, rng):
    viols, nontrivial = [], []
    fn = case.function
    for e in case.execs:
        s, j = len(e.group), e.own
        for b in e.blocks:
            ctr["block_visits_checked"] += 1
            ctx = fn.transaction_context(b)
            if s not in ctx.group_sizes:
                viols.append({"kind": "size-missing", "key": b.entry_instr.line, "ckey": "size",
                              "what": "accepting execution with GroupSize %d (index %d) visits block at line %d, group_sizes=%s" % (
                                  s, j, b.entry_instr.line, sorted(ctx.group_sizes)),
                              "exec": frag.slim_exec(e), "ended_in_call": e.ended_in_call})
            if j not in ctx.group_indices:
                viols.append({"kind": "index-missing", "key": b.entry_instr.line, "ckey": "index",
                              "what": "accepting execution with GroupIndex %d (size %d) visits block at line %d, group_indices=%s" % (
                                  j, s, b.entry_instr.line, sorted(ctx.group_indices)),
                              "exec": frag.slim_exec(e), "ended_in_call": e.ended_in_call})
    for b in fn.blocks:
        ctx = fn.transaction_context(b)
        if ctx.group_indices and max(ctx.group_indices) >= max(ctx.group_sizes, default=0):
            viols.append({"kind": "index-without-larger-size", "key": b.entry_instr.line,
                          "what": "block at line %d lists index %d but sizes %s" % (b.entry_instr.line, max(ctx.group_indices), sorted(ctx.group_sizes))})
        if 0 < len(ctx.group_sizes) < 16 or 0 < len(ctx.group_indices) < 16:
            nontrivial.append(common.h([case.src, b.entry_instr.line]))
    ev, nt = exact.evaluate_sizes(case, ctr, rng)
    viols.extend(ev)
    return viols, nontrivial


_P = {"keys": ["GroupSize", "GroupSize", "GroupIndex", "GroupIndex", "Fee", "Addr", "Type"]}
_c = fragcheck.FragCheck(
    PROP, evaluate,
    profiles=[(3, dict(_P), "mixed"), (2, dict(_P, direct_only=True), "direct"),
              (1, dict(_P, max_subs=5, max_depth=4), "deep"),
              (2, dict(_P, max_subs=4, max_stmts=3, weights={"call": 8, "ret": 3, "doloop": 2}), "call-heavy"),
              (1, {"lattice": True, "keys": ["GroupSize", "GroupIndex", "Addr"]}, "call-lattice")],
    sizes={"quick": (32, 40), "thorough": (160, 150)},
    rule="fragment programs biased to GroupSize/GroupIndex checks x all 136 (size, index) pairs x representatives of the other "
         "fields; non-trivial = distinct (program, block) whose reported size or index set is a proper non-empty subset",
    classify=classify.ctx, pair_mode="all", cap=(2500, 4000),
)
_c.export(globals())
