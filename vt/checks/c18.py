"""C18 - exported graphs and reports denote exactly the internal results.

Monitor: the files tealer writes under $TEALER_ROOT_OUTPUT_DIR and the stdout of `--json -` are read back with a small
reader for the DOT dialect tealer emits and compared with (a) the reference global graph (C04/C05 reference) and
(b) the results obtained through the API on the same source (contexts, reported paths).
"""
import html
import json
import os
import re
import shutil

from vt import common
from vt.gen import fragment, teal as T
from vt.mon import cli, observe
from vt.ref.cfg import RefCFG

PROP = "C18"
ASSUMPTIONS = [
    "DOT reader for tealer's dialect (vt/checks/c18.py): node = `<idx>[label=<<TABLE ...`, rows `<line>. <source>`, "
    "edges `<a>:s -> <b>:<port>:n`, call boxes `x<site>_<ret>`",
    "reference global graph from vt/ref/cfg.py; internal results = what the API returns in-process for the same source",
]
DECIDING_COUNTERS = ["cfg_dots_read", "subroutine_dots_read", "json_outputs_read", "path_dots_read", "filters_checked",
                     "context_annotations_read", "json_error_envelopes_read"]
BATCH_TIMEOUT = {"quick": 600, "thorough": 2400}
NODE = re.compile(r'^(\w+)\[label=<<TABLE ALIGN="LEFT" COLOR="([^"]*)">\n(.*?)</TABLE>> labelloc=top shape=plain\n\]', re.S | re.M)
EDGE = re.compile(r'(?<![\w:])(\w+):s -> (\w+)(?::(\d+))?:n(?: \[color="([^"]*)"\])?;')
BOX = re.compile(r'^(x\d+_\w+)\[label="Subroutine ([^"]*)"', re.M)
ROW = re.compile(r"<TR><TD ALIGN=\"LEFT\" BALIGN=\"LEFT\" COLOR=\"([^\"]*)\">(.*?)</TD></TR>", re.S)
HEAD = re.compile(r'<TR><TD COLOR="BLACK" ALIGN="LEFT" BALIGN="LEFT" PORT="(\d+)" BORDER="\d+"><B>(.*?)</B></TD></TR>', re.S)


class Ctr(dict):
    def __missing__(self, k):
        return 0


class CaseTimeout(BaseException):
    pass


def plan(tier, seed, scale=1.0):
    nb = 32
    per = max(2, int((6 if tier == "quick" else 90) * scale))
    return [{"batch": b, "n": per, "seed": seed, "tier": tier} for b in range(nb)]


MALFORMED = []      # descriptions of DOT files without the outer shape of a digraph (drained per program)


def read_dot(text):
    """-> nodes {id: {color, port, comments, rows[(line, src, color)]}}, edges [(a, b, port, color)], boxes {id: sub}"""
    bad = common.dot_malformed(text)
    if bad:
        MALFORMED.append(bad)
    nodes = {}
    for m in NODE.finditer(text):
        nid, color, body = m.group(1), m.group(2), m.group(3)
        h = HEAD.search(body)
        rows = []
        for r in ROW.finditer(body):
            cell = r.group(2)
            # drop tealer / source comments in front of the instruction: they end with <BR/>
            last = cell.split("<BR/>")[-1]
            last = re.sub(r"</?[BI]>", "", last)
            mm = re.match(r"^(\d+)\. (.*)$", html.unescape(last), re.S)
            rows.append((int(mm.group(1)), mm.group(2), r.group(1)) if mm else (None, html.unescape(last), r.group(1)))
        comments = [html.unescape(c)[3:] if html.unescape(c).startswith("// ") else html.unescape(c) for c in (h.group(2).split("<BR/>") if h else [])]
        nodes[nid] = {"color": color, "port": int(h.group(1)) if h else None, "comments": comments, "rows": rows}
    edges = [(m.group(1), m.group(2), m.group(3), m.group(4)) for m in EDGE.finditer(text)]
    boxes = {m.group(1): m.group(2) for m in BOX.finditer(text)}
    return nodes, edges, boxes


def norm(s):
    return " ".join(s.split())


def parse_num_list(s):
    out = set()
    for tok in s.split():
        if ".." in tok:
            a, b = tok.split("..")
            out.update(range(int(a), int(b) + 1))
        else:
            out.add(int(tok))
    return out


def ref_edges(full, ref, blocks_by_line):
    """Reference global edge set over tealer block ids, from the reference successor relation."""
    first_of = {}   # instruction index -> first line of its block
    for b in blocks_by_line.values():
        for i in b.instructions:
            first_of[i.line - 1] = b
    edges = set()
    for b in blocks_by_line.values():
        k = b.instructions[-1].line - 1
        op = full[k][0]
        if op == "callsub":
            callee_entry = ref.labels[full[k][1]]
            edges.add((b.idx, first_of[callee_entry].idx, "call"))
            rp = k + 1 if k + 1 < ref.n else None
            if rp is not None:
                for r in ref.sub_members[full[k][1]]:
                    if full[r][0] == "retsub":
                        edges.add((first_of[r].idx, first_of[rp].idx, "ret"))
        else:
            for s in ref.local_succ[k]:
                edges.add((b.idx, first_of[s].idx, "flow"))
    return edges


def check_cfg_dot(text, teal, full, ref, src_lines, viols, tag, expect_red=None, annotations=None):
    nodes, edges, boxes = read_dot(text)
    ids = sorted(int(n) for n in nodes)
    want_ids = sorted(b.idx for b in teal.bbs)
    if ids != want_ids:
        viols.append(("dot-nodes", tag, "%s: nodes %s, blocks %s" % (tag, ids[:20], want_ids[:20])))
        return
    by_idx = {b.idx: b for b in teal.bbs}
    for nid, nd in nodes.items():
        b = by_idx[int(nid)]
        want_rows = [(i.line, norm(src_lines[i.line - 1])) for i in b.instructions]
        got_rows = [(r[0], norm(r[1])) for r in nd["rows"]]
        if got_rows != want_rows:
            viols.append(("dot-rows", tag, "%s: node %s shows %s, block holds %s" % (tag, nid, got_rows[:6], want_rows[:6])))
            return
        if nd["port"] != b.entry_instr.line:
            viols.append(("dot-port", tag, "%s: node %s has port %s, block starts at line %d" % (tag, nid, nd["port"], b.entry_instr.line)))
    got_e = set()
    for a, b2, port, color in edges:
        if not (a.isdigit() and b2.isdigit()):
            viols.append(("dot-edge-endpoint", tag, "%s: edge %s -> %s is not between blocks" % (tag, a, b2)))
            continue
        got_e.add((int(a), int(b2)))
        if port is not None and int(port) != by_idx[int(b2)].entry_instr.line:
            viols.append(("dot-edge-port", tag, "%s: edge %s -> %s enters at port %s" % (tag, a, b2, port)))
    blocks_by_line = {b.entry_instr.line: b for b in teal.bbs}
    want = ref_edges(full, ref, blocks_by_line)
    want_e = set((a, b2) for a, b2, _k in want)
    if got_e != want_e:
        viols.append(("dot-edges", tag, "%s: edges not in the global graph %s / global edges not drawn %s" % (
            tag, sorted(got_e - want_e)[:8], sorted(want_e - got_e)[:8])))
    if expect_red is not None:
        red = sorted(int(n) for n, nd in nodes.items() if nd["color"].upper() == "RED")
        if red != sorted(expect_red):
            viols.append(("path-highlight", tag, "%s: blocks marked %s, path blocks %s" % (tag, red, sorted(expect_red))))
    if annotations is not None:
        for nid, nd in nodes.items():
            want = annotations.get(int(nid))
            gi = [c for c in nd["comments"] if c.startswith("GroupIndex:")]
            gs = [c for c in nd["comments"] if c.startswith("GroupSize:")]
            if want is None:
                continue
            if len(gi) != 1 or len(gs) != 1:
                viols.append(("annotation-missing", tag, "%s: node %s lacks GroupIndex/GroupSize annotation: %s" % (tag, nid, nd["comments"])))
                continue
            got = (parse_num_list(gi[0].split(":", 1)[1]), parse_num_list(gs[0].split(":", 1)[1]))
            if got != want:
                viols.append(("annotation-value", tag, "%s: node %s annotated indices %s sizes %s, computed %s / %s" % (
                    tag, nid, sorted(got[0]), sorted(got[1]), sorted(want[0]), sorted(want[1]))))


def check_sub_dot(text, sub, teal, full, ref, viols, tag):
    nodes, edges, boxes = read_dot(text)
    want_ids = sorted(b.idx for b in sub.blocks)
    ids = sorted(int(n) for n in nodes)
    if ids != want_ids:
        viols.append(("subdot-nodes", tag, "%s: nodes %s, subroutine blocks %s" % (tag, ids, want_ids)))
        return
    by_idx = {b.idx: b for b in sub.blocks}
    want_edges = set()
    want_boxes = {}
    first_of = {}
    for b in teal.bbs:
        for i in b.instructions:
            first_of[i.line - 1] = b
    for b in sub.blocks:
        k = b.instructions[-1].line - 1
        if full[k][0] == "callsub":
            rp = first_of[k + 1].idx if k + 1 < ref.n else None
            box = "x%d_%s" % (b.idx, rp if rp is not None else "none")
            want_boxes[box] = full[k][1]
            want_edges.add((str(b.idx), box))
            if rp is not None:
                want_edges.add((box, str(rp)))
        else:
            for s in ref.local_succ[k]:
                want_edges.add((str(b.idx), str(first_of[s].idx)))
    got_edges = set((a, b2) for a, b2, _p, _c in edges)
    if got_edges != want_edges:
        viols.append(("subdot-edges", tag, "%s: extra %s missing %s" % (tag, sorted(got_edges - want_edges)[:6], sorted(want_edges - got_edges)[:6])))
    if boxes != want_boxes:
        viols.append(("subdot-call-boxes", tag, "%s: call boxes %s, call sites %s" % (tag, boxes, want_boxes)))


def one_program(prog, version, rng, ctr, viols, nontrivial):
    src, _ = T.render(prog, version)
    src_lines = src.splitlines()
    full = [("#pragma", "version", version)] + list(prog)
    ref = RefCFG(full)
    if not ref.disjoint():
        return False
    obs = observe.analyse(src, "c")
    teal = obs.teal
    api = observe.run_detectors(obs)
    api_paths = {d: [[b.idx for b in p] for p in observe.paths_of(api[d])] for d in api}
    d = cli.scratch()
    root = common.OUT_DIR
    try:
        with open(os.path.join(d, "c.teal"), "w") as f:
            f.write(src)
        # --- cfg
        cli.clean_outdir()
        r = cli.run_inprocess(["print", "cfg", "--contracts", "c.teal"], d)
        files = cli.collect_files(root)
        if r.exc is None and "c/full_cfg.dot" in files:
            ctr["cfg_dots_read"] += 1
            check_cfg_dot(files["c/full_cfg.dot"], teal, full, ref, src_lines, viols, "cfg")
            if ref.callsites:
                nontrivial.append(common.h([src, "cfg"]))
        else:
            viols.append(("export-missing", "cfg", "print cfg produced no full_cfg.dot (%s)" % r.exc))
        # --- subroutine-cfg
        cli.clean_outdir()
        r = cli.run_inprocess(["print", "subroutine-cfg", "--contracts", "c.teal"], d)
        files = cli.collect_files(root)
        want_files = {"c/print-subroutine-cfg/contract_shortened_cfg.dot": teal.main}
        for nm, sub in teal.subroutines.items():
            want_files["c/print-subroutine-cfg/subroutine_%s_cfg.dot" % nm] = sub
        if set(files) != set(want_files):
            viols.append(("subdot-files", "subroutine-cfg", "files %s, expected %s" % (sorted(files), sorted(want_files))))
        for fn_, sub in want_files.items():
            if files.get(fn_):
                ctr["subroutine_dots_read"] += 1
                check_sub_dot(files[fn_], sub, teal, full, ref, viols, "subroutine-cfg:" + sub.name)
                if any(b.is_callsub_block for b in sub.blocks):
                    nontrivial.append(common.h([src, "sub", sub.name]))
        # --- transaction-context
        cli.clean_outdir()
        r = cli.run_inprocess(["print", "transaction-context", "--contracts", "c.teal"], d)
        files = cli.collect_files(root)
        f_ctx = "c/print-transaction-context/transaction-context.dot"
        if r.exc is None and files.get(f_ctx):
            ann = {}
            fb = {b.idx: b for b in obs.function.blocks}
            for b in teal.bbs:
                if b.idx in fb:
                    c = obs.function.transaction_context(fb[b.idx])
                    ann[b.idx] = (set(c.group_indices), set(c.group_sizes))
            ctr["context_annotations_read"] += 1
            check_cfg_dot(files[f_ctx], teal, full, ref, src_lines, viols, "transaction-context", annotations=ann)
        else:
            viols.append(("export-missing", "transaction-context", "print transaction-context produced no dot file (%s)" % r.exc))
        # --- detect text: path files
        cli.clean_outdir()
        r = cli.run_inprocess(["detect", "--contracts", "c.teal"], d)
        files = cli.collect_files(root)
        for det, paths in api_paths.items():
            for k, p in enumerate(paths[:6], start=1):
                fn_ = "c/%s/%s-%d.dot" % (det, det, k)
                if fn_ not in files:
                    # the CLI only runs the detectors applicable to the contract's mode
                    continue
                ctr["path_dots_read"] += 1
                check_cfg_dot(files[fn_], teal, full, ref, src_lines, viols, "path:" + det, expect_red=set(p))
                nontrivial.append(common.h([src, det, k]))
        # --- detect json
        cli.clean_outdir()
        r = cli.run_inprocess(["--json", "-", "detect", "--contracts", "c.teal"], d)
        try:
            j = json.loads(r.out[r.out.index("{"):])
        except Exception:
            j = None
            viols.append(("json-unreadable", "json", "stdout of --json - is not JSON: %r" % r.out[:200]))
        shorts = {}
        if j is not None:
            ctr["json_outputs_read"] += 1
            if j.get("success") is not True or j.get("error") is not None:
                viols.append(("json-success-flag", "json", "no error occurred but success=%r error=%r" % (j.get("success"), j.get("error"))))
            for res in j["result"]:
                if res.get("type") != "ExecutionPaths":
                    continue
                det = res["check"]
                shorts[det] = [p["short"] for p in res["paths"]]
                if res["count"] != len(res["paths"]):
                    viols.append(("json-count", "json", "%s: count %s, %d paths listed" % (det, res["count"], len(res["paths"]))))
                want = [" -> ".join(map(str, p)) for p in api_paths.get(det, [])]
                if shorts[det] != want:
                    viols.append(("json-paths", "json", "%s: JSON paths %s, API paths %s" % (det, shorts[det][:5], want[:5])))
        # --- json with a provoked error
        cli.clean_outdir()
        r = cli.run_inprocess(["--json", "-", "detect", "--contracts", "c.teal", "--detectors", "no-such-detector"], d)
        try:
            je = json.loads(r.out[r.out.index("{"):])
            ctr["json_error_envelopes_read"] += 1
            if je.get("success") is not False or not je.get("error"):
                viols.append(("json-success-flag", "json-error", "an error occurred (unknown detector) but success=%r error=%r" % (je.get("success"), je.get("error"))))
        except Exception:
            viols.append(("json-unreadable", "json-error", "stdout of --json - with unknown detector is not JSON: %r" % r.out[:200]))
        # --- filter-paths
        if shorts and any(shorts.values()):
            allshort = [s for v in shorts.values() for s in v]
            cands = ["0 -> 1", r"-> 2", r"^0$", r"1 -> \d+ -> ", rng.choice(allshort), r"\b%s\b" % rng.choice(allshort).split(" -> ")[-1], ""]
            pat = rng.choice(cands)
            cli.clean_outdir()
            r = cli.run_inprocess(["--json", "-", "detect", "--contracts", "c.teal", "--filter-paths", pat], d)
            try:
                jf = json.loads(r.out[r.out.index("{"):])
            except Exception:
                jf = None
                viols.append(("json-unreadable", "filter", "filtered run is not JSON"))
            if jf is not None:
                ctr["filters_checked"] += 1
                for res in jf["result"]:
                    if res.get("type") != "ExecutionPaths":
                        continue
                    det = res["check"]
                    want = [s for s in shorts.get(det, []) if pat == "" or re.search(pat, s) is None]
                    got = [p["short"] for p in res["paths"]]
                    if got != want:
                        viols.append(("filter-paths", "filter", "%s with --filter-paths %r: kept %s, expected %s" % (det, pat, got[:6], want[:6])))
                    if res["count"] != len(got):
                        viols.append(("json-count", "filter", "%s filtered: count %s, %d paths listed" % (det, res["count"], len(got))))
    finally:
        shutil.rmtree(d, ignore_errors=True)
        cli.clean_outdir()
    return True


def run_batch(spec):
    import signal
    common.import_tealer()
    rng = common.rng_for(PROP, spec["batch"], spec["seed"])
    ctr = Ctr()
    out = {"violations": [], "nontrivial": [], "samples": [], "cases": 0, "inconclusive": 0, "notes": []}
    allv = []

    def _alarm(*_a):
        raise CaseTimeout()

    signal.signal(signal.SIGALRM, _alarm)
    for n in range(spec["n"]):
        c = fragment.generate(rng, {"max_subs": 3, "recursion": rng.random() < 0.2, "max_stmts": 3,
                                    "p_subs_first": 0.35, "p_call_last": 0.4})
        viols, nontrivial = [], []
        signal.alarm(120)
        try:
            del MALFORMED[:]
            ok = one_program(c["prog"], c["version"], rng, ctr, viols, nontrivial)
            for bad in MALFORMED[:2]:
                viols.append(("dot-malformed", "dot", "an exported DOT file is not a well-formed digraph: %s" % bad))
            ctr["dot_files_shape_checked"] += 1
            if ok:
                common.release_tealer_caches()
                out["cases"] += 1
        except CaseTimeout:
            out["inconclusive"] += 1
        except Exception as e:
            import traceback
            out["inconclusive"] += 1
            if len(out["notes"]) < 2:
                out["notes"].append({"harness_or_tealer_raised": traceback.format_exc()[-600:]})
        finally:
            signal.alarm(0)
        src, _ = T.render(c["prog"], c["version"])
        for kind, key, what in viols:
            allv.append({"kind": kind, "key": key, "what": what, "src": src, "prog": c["prog"], "version": c["version"], "mechanism": None})
        out["nontrivial"].extend(nontrivial)
    seen = {}
    for v in allv:
        seen.setdefault((v["kind"], v["key"]), v)
    out["violations"] = list(seen.values())[:40]
    out["counters"] = dict(ctr)
    if spec["batch"] == 0:
        out["samples"] = [{"outputs_compared": ["full_cfg.dot", "subroutine_*_cfg.dot", "transaction-context.dot", "<detector>-<k>.dot", "--json -", "--filter-paths"]}]
    return out


def replay(case):
    common.import_tealer()
    import random
    ctr = Ctr()
    viols, nt = [], []
    prog = [tuple(i) for i in case["prog"]]
    one_program(prog, case["version"], random.Random(0), ctr, viols, nt)
    return {"violations": [{"kind": k, "key": key, "what": w, "mechanism": None} for k, key, w in viols], "cases": 1, "counters": dict(ctr)}


def coverage(m, tier):
    c = m["counters"]
    return {
        "rule": "fragment programs x {cfg, subroutine-cfg, transaction-context printers, detect text (path DOT files), detect JSON, "
                "JSON with provoked error, --filter-paths}; non-trivial = distinct (program, output kind) with at least one call site "
                "or reported path",
        "evaluations": sum(c.get(k, 0) for k in DECIDING_COUNTERS),
    }
