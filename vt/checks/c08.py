"""C08 - per-block address-field information admits every approvable address.

Soundness monitor: accepting execution with RekeyTo / CloseRemainderTo / AssetCloseTo / Sender = non-zero
address a visiting block b  =>  info(b) says 'any address' or lists a.  The converse (a field equality-
constrained on every accepting path is not 'any address') is decided by the abstract walk oracle (exact.py).
"""
from vt import common, classify
from vt.checks import fragcheck, frag, ctxlib, exact

PROP = "C08"
ASSUMPTIONS = [
    "reference interpreter vt/ref/avm.py decides acceptance; addresses are atoms with equality only",
    "CloseRemainderTo (AssetCloseTo) can be non-zero only on pay (axfer) transactions",
    "tealer's creator marker is the string CREATOR_ADDRESS",
]
DECIDING_COUNTERS = ["block_visits_checked", "accepting_executions", "literal_or_attacker_obligations"]


def evaluate(case, ctr, rng):
    viols, nontrivial = [], []
    fn = case.function
    for e in case.execs:
        t = e.group[e.own]
        for b in e.blocks:
            ctr["block_visits_checked"] += 1
            ctx = fn.transaction_context(b)
            for field, attr in ctxlib.ADDR_CTX.items():
                for atom in ctxlib.addr_value_possible(t, field):
                    ctr["literal_or_attacker_obligations"] += 1
                    av = getattr(ctx, attr)
                    if field in t:
                        nontrivial.append(common.h([case.src, b.entry_instr.line, field]))
                    if not ctxlib.addr_admits(av, atom):
                        viols.append({"kind": "address-not-admitted", "key": (b.entry_instr.line, field), "ckey": field, "atom": atom,
                                      "what": "accepting execution with %s=%s visits block at line %d; info any=%s no=%s addrs=%s" % (
                                          field, atom, b.entry_instr.line, av.any_addr, av.no_addr, sorted(av.possible_addr)),
                                      "exec": frag.slim_exec(e), "ended_in_call": e.ended_in_call})
    ev, nt = exact.evaluate_addr(case, ctr, rng)
    viols.extend(ev)
    nontrivial.extend(nt)
    return viols, nontrivial


_P = {"keys": ["Addr", "Addr", "Addr", "Type", "Fee", "GroupIndex"]}
_c = fragcheck.FragCheck(
    PROP, evaluate,
    profiles=[(3, dict(_P), "mixed"), (2, dict(_P, direct_only=True), "direct"),
              (1, dict(_P, max_subs=5, max_depth=4), "deep"),
              (2, dict(_P, max_subs=4, max_stmts=3, weights={"call": 8, "ret": 3, "doloop": 2}), "call-heavy"),
              (1, {"lattice": True, "keys": ["Addr", "Addr", "Fee"]}, "call-lattice")],
    sizes={"quick": (32, 45), "thorough": (160, 160)},
    rule="fragment programs biased to address checks (==/!= against ZeroAddress, CreatorAddress, literals; either operand "
         "order; &&/||/!; asserted or branched on) x address valuations {zero, literals, creator, attacker}; non-trivial = "
         "distinct (program, block, field) visited by an accepting execution where the program reads that field",
    classify=classify.fragment, cap=(900, 1800),
)
_c.export(globals())
