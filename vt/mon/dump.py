"""Canonical dump of what tealer computed for one contract: per-block contexts (as sets where they denote
sets), reported paths in order, and the JSON text of every detector output."""
import json
import sys

from vt.mon import observe


def contexts(obs):
    out = {}
    for b in obs.function.blocks:
        out[str(b.entry_instr.line)] = observe.full_ctx_dump(obs.function.transaction_context(b))
    return out


def detectors(obs, order=None, repeat=1):
    """Run detectors in `order` on the Obs' Tealer; returns {name: {"paths": [...], "json": text}} (last repetition)
    and the list of context dumps taken after each detector run."""
    classes = observe.detector_classes()
    order = list(order or observe.PATH_DETECTORS)
    res, ctx_after = {}, []
    with observe.Quiet():
        start = len(obs.tealer.detectors)
        for nm in order:
            obs.tealer.register_detector(classes[nm])
        for det in obs.tealer.detectors[start:]:
            for _ in range(repeat):
                outs = det.detect()
                r = {"paths": [[b.idx for b in p] for o in outs for p in o.paths],
                     "json": json.dumps([o.to_json() for o in outs], indent=1)}
                if det.NAME in res and res[det.NAME] != r:
                    r["differs_between_repetitions"] = True
                res[det.NAME] = r
            ctx_after.append((det.NAME, contexts(obs)))
    return res, ctx_after


def full(src, name="contract"):
    obs = observe.analyse(src, name)
    c0 = contexts(obs)
    d, _ = detectors(obs)
    return {"contexts": c0, "detectors": d}


def main():
    """Sub-process entry: stdin = JSON {"src":..., "shuffle": seed or null}; stdout = JSON dump."""
    from vt import common
    spec = json.loads(sys.stdin.read())
    common.import_tealer()
    if spec.get("shuffle") is not None:
        import random
        from tealer.teal.subroutine import Subroutine
        rnd = random.Random(spec["shuffle"])
        orig = Subroutine.called_subroutines.fget

        def shuffled(self):
            l = orig(self)
            l = sorted(l, key=lambda s: s.name)
            rnd.shuffle(l)
            return l

        Subroutine.called_subroutines = property(shuffled)
    out = []
    for src in spec.get("srcs", [spec.get("src")]):
        try:
            d = full(src)
        except Exception as e:
            d = {"error": "%s: %s" % (type(e).__name__, e)}
        out.append(d)
        if spec.get("fresh_each"):
            pass
    sys.stdout.write("DUMP " + json.dumps(out if "srcs" in spec else out[0]) + "\n")


if __name__ == "__main__":
    main()
