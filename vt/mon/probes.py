"""Reach counters: sys.monitoring PY_START events per source file of the tealer tree under test.

Diagnostic only (never decides a verdict): the evidence shows that the anchored code really ran, e.g.
"functions of analyses/dataflow/transaction_context/int_fields.py were entered 41 203 times in this run".
"""
import os
import sys

from vt import common

_counts = {}
_on = False


def start():
    global _on
    if _on or not hasattr(sys, "monitoring"):
        return
    mon = sys.monitoring
    tool = mon.PROFILER_ID
    try:
        mon.use_tool_id(tool, "vt-probes")
    except ValueError:
        return
    root = os.path.realpath(os.path.join(common.REPO, "tealer")) + os.sep

    def on_start(code, _offset):
        f = code.co_filename
        if f.startswith(root):
            k = f[len(root):]
            _counts[k] = _counts.get(k, 0) + 1
            return None
        return mon.DISABLE

    mon.register_callback(tool, mon.events.PY_START, on_start)
    mon.set_events(tool, mon.events.PY_START)
    _on = True


def snapshot():
    return {"calls:" + k: v for k, v in _counts.items()}
