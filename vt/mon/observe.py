"""Drive the real tealer in-process through its public API and canonicalise what it returns.

Only boundary observations are taken here: init_tealer_from_single_contract, parse_teal,
Function.transaction_context, run_detectors / ExecutionPaths, to_json.
"""
import contextlib
import io

from vt.common import import_tealer

PATH_DETECTORS = [
    "rekey-to",
    "can-close-account",
    "can-close-asset",
    "missing-fee-check",
    "is-updatable",
    "is-deletable",
    "unprotected-updatable",
    "unprotected-deletable",
    "group-size-check",
]


class Quiet:
    """Capture stdout/stderr of tealer (it prints diagnostics while parsing)."""

    def __enter__(self):
        self.out = io.StringIO()
        self.err = io.StringIO()
        self._cm = contextlib.ExitStack()
        self._cm.enter_context(contextlib.redirect_stdout(self.out))
        self._cm.enter_context(contextlib.redirect_stderr(self.err))
        return self

    def __exit__(self, *a):
        self._cm.close()
        return False


def detector_classes():
    import_tealer()
    from tealer.utils.command_line.common import get_detectors_and_printers

    dets, _ = get_detectors_and_printers()
    return {d.NAME: d for d in dets}


class Obs:
    pass


def analyse(src, name="contract"):
    """Parse + build the whole-contract function + run the transaction-context analyses."""
    import_tealer()
    from tealer.utils.command_line.common import init_tealer_from_single_contract

    o = Obs()
    with Quiet() as q:
        o.tealer = init_tealer_from_single_contract(src, name)
    o.stdout, o.stderr = q.out.getvalue(), q.err.getvalue()
    o.teal = o.tealer.contracts[name]
    o.function = o.teal.functions[name]
    o.name = name
    return o


def parse_only(src, name="contract"):
    import_tealer()
    from tealer.teal.parse_teal import parse_teal

    with Quiet() as q:
        teal = parse_teal(src, name)
    return teal, q.out.getvalue(), q.err.getvalue()


def run_detectors(obs, names=None):
    """Register the named detectors (default: the nine path detectors) on the Obs' Tealer and run them.

    Returns {detector name: ExecutionPaths}. A Tealer instance accepts each detector class once,
    so this may be called once per Obs and detector.
    """
    classes = detector_classes()
    names = list(names or PATH_DETECTORS)
    res = {}
    with Quiet():
        start = len(obs.tealer.detectors)
        for nm in names:
            obs.tealer.register_detector(classes[nm])
        for det in obs.tealer.detectors[start:]:
            out = det.detect()
            # single-contract mode: one ExecutionPaths per (contract, function)
            res[det.NAME] = out
    return res


def paths_of(outputs):
    """List of block paths (lists of BasicBlock) from a detector's ListOutput."""
    paths = []
    for o in outputs:
        paths.extend(o.paths)
    return paths


def block_line(b):
    return b.entry_instr.line


def block_lines(b):
    return [i.line for i in b.instructions]


def addr_dump(a):
    return {"any": bool(a.any_addr), "no": bool(a.no_addr), "addrs": sorted(a.possible_addr)}


def ctx_dump(ctx, tail=False):
    d = {
        "types": sorted(str(t) for t in ctx.transaction_types),
        "rekeyto": addr_dump(ctx.rekeyto),
        "closeto": addr_dump(ctx.closeto),
        "assetcloseto": addr_dump(ctx.assetcloseto),
        "sender": addr_dump(ctx.sender),
        "max_fee": ctx.max_fee,
        "max_fee_unknown": bool(ctx.max_fee_unknown),
    }
    if not tail:
        d["sizes"] = sorted(ctx.group_sizes)
        d["indices"] = sorted(ctx.group_indices)
    return d


def full_ctx_dump(ctx):
    d = ctx_dump(ctx)
    d["gtxn"] = [ctx_dump(ctx.gtxn_context(i), True) for i in range(16)]
    d["abs"] = [ctx_dump(ctx.absolute_context(i), True) for i in range(16)]
    d["rel"] = {str(k): ctx_dump(ctx.relative_context(k), True) for k in range(-15, 16) if k != 0}
    return d


def function_blocks_by_line(function):
    return {block_line(b): b for b in function.blocks}


def line_to_block(function):
    m = {}
    for b in function.blocks:
        for i in b.instructions:
            m[i.line] = b
    return m
