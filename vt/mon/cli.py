"""Run the tealer command line, in-process (same code path as the console script: tealer.__main__.main with a
patched argv) or as a real subprocess, from a scratch working directory, and collect status, output and files."""
import contextlib
import io
import os
import shutil
import subprocess
import sys
import tempfile
import traceback

from vt import common


class CliResult:
    def __init__(self):
        self.status = 0
        self.exc = None
        self.tb = ""
        self.out = ""
        self.err = ""
        self.files = {}


def scratch():
    d = tempfile.mkdtemp(prefix="vt_cli_")
    return d


def collect_files(root):
    out = {}
    for base, _dirs, files in os.walk(root):
        for f in files:
            p = os.path.join(base, f)
            try:
                with open(p, encoding="utf-8") as fh:
                    out[os.path.relpath(p, root)] = fh.read()
            except Exception:
                out[os.path.relpath(p, root)] = None
    return out


def run_inprocess(argv, cwd):
    """argv without the program name. Output files are written under common.OUT_DIR (TEALER_ROOT_OUTPUT_DIR)."""
    common.import_tealer()
    import tealer.__main__ as tm

    r = CliResult()
    old_argv, old_cwd = sys.argv, os.getcwd()
    out, err = io.StringIO(), io.StringIO()
    os.chdir(cwd)
    sys.argv = ["tealer"] + list(argv)
    try:
        with contextlib.redirect_stdout(out), contextlib.redirect_stderr(err):
            try:
                tm.main()
            except SystemExit as e:
                code = e.code
                r.status = 0 if code in (None, 0) else (code if isinstance(code, int) else 1)
            except BaseException as e:  # noqa
                if type(e).__name__ == "CaseTimeout":
                    raise
                r.status = 1
                r.exc = type(e).__name__
                r.tb = traceback.format_exc()[-1500:]
    finally:
        sys.argv = old_argv
        os.chdir(old_cwd)
    r.out, r.err = out.getvalue(), err.getvalue()
    return r


def run_subprocess(argv, cwd, timeout=120):
    r = CliResult()
    env = dict(os.environ)
    env["TEALER_ROOT_OUTPUT_DIR"] = os.path.join(cwd, "export")
    env["PYTHONPATH"] = common.REPO
    env["PYTHONDONTWRITEBYTECODE"] = "1"
    try:
        p = subprocess.run([common.PY, "-m", "tealer"] + list(argv), cwd=cwd, env=env, capture_output=True, text=True, timeout=timeout)
    except subprocess.TimeoutExpired:
        r.status = -999
        r.exc = "timeout"
        return r
    r.status = p.returncode
    r.out, r.err = p.stdout, p.stderr
    if "Traceback (most recent call last)" in p.stderr:
        r.exc = p.stderr.strip().splitlines()[-1][:200]
        r.tb = p.stderr[-1500:]
    r.files = collect_files(os.path.join(cwd, "export"))
    return r


def clean_outdir():
    if common.OUT_DIR and os.path.isdir(common.OUT_DIR):
        for n in os.listdir(common.OUT_DIR):
            p = os.path.join(common.OUT_DIR, n)
            shutil.rmtree(p, ignore_errors=True) if os.path.isdir(p) else os.remove(p)
