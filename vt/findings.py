"""Known-findings list: read-only at run time, matched by mechanism (never by hash or random value).

known_findings.json entries:
  {"id": "...", "property": ["C01", ...], "status": "known" | "fixed", "mechanism": "<tag>",
   "what": "...", "failing_input": "...", "commit": "<sha, for fixed>"}
A violation produced by a check carries `mechanism` (a tag computed by the check's classifier from the
shrunk witness and, where one exists, a counterfactual rewrite - see vt/classify.py).  Only entries with
status "known" suppress; a "fixed" entry suppresses nothing.
"""
import json
import os

from vt import common

PATH = os.path.join(common.VERIF_ROOT, "known_findings.json")


def load():
    if not os.path.exists(PATH):
        return []
    with open(PATH, encoding="utf-8") as f:
        return json.load(f)["findings"]


def match(known, prop, violation):
    mech = violation.get("mechanism")
    if not mech:
        return None
    for k in known:
        if k.get("status") != "known":
            continue
        if prop in k["property"] and k["mechanism"] == mech:
            return k
    return None


def describe(known, kid):
    for k in known:
        if k["id"] == kid:
            return "%s: %s" % (k["id"], k["what"])
    return kid
