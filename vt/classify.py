"""Mechanism classifiers: attribute a violation to a listed mechanism by a structural predicate on the
witness and, where one exists, a counterfactual rewrite that removes exactly that construct while
preserving the witness execution.  Returning None means "unattributed" -> reported as a VIOLATION.
Classifiers are deliberately narrow; the known-findings file is never consulted or written here.
"""
from vt.ref.cfg import RefCFG

INT_PUSH = ("int", "pushint", "intc", "intc_0", "intc_1", "intc_2", "intc_3")
MIRROR = {"<": ">", "<=": ">=", ">": "<", ">=": "<="}


def c04(v):
    """prev-list corruption caused by pruning a dead block that has two or more successors."""
    if v["kind"] not in ("prev-outside-graph", "next-prev-mismatch"):
        return None
    prog = [("#pragma", "version", v["version"])] + [tuple(i) for i in v["prog"]]
    ref = RefCFG(prog)
    for k in range(ref.n):
        if k not in ref.retained and prog[k][0] in ("bz", "bnz", "switch", "match"):
            if len(set(ref.local_succ[k])) >= 2:
                return "dead-block-multi-successor-pruning"
    return None


def c05(v):
    """exit/leaf notion ignores 'running past the last instruction' for a last-line branch."""
    if v["kind"] != "exit-blocks":
        return None
    prog = [tuple(i) for i in v["prog"]]
    last = prog[-1][0]
    if last in ("bz", "bnz", "switch", "match"):
        return "end-of-program-fallthrough-not-an-exit"
    return None


# ---------------------------------------------------------------- rewrites for fragment programs

def r_swap_int_field_operands(prog):
    """`C; global GroupSize|txn GroupIndex; <op>`  ->  `field; C; <mirrored op>` (same meaning, same length)."""
    out = list(prog)
    n = 0
    for k in range(len(out) - 2):
        a, b, c = out[k], out[k + 1], out[k + 2]
        if a[0] in INT_PUSH and b in (("global", "GroupSize"), ("txn", "GroupIndex")) and c[0] in MIRROR:
            out[k], out[k + 1], out[k + 2] = b, a, (MIRROR[c[0]],)
            n += 1
    return out, n


def r_opaque_reads(prog, fields):
    """Insert `int 0; +` after every read of one of `fields` (value unchanged, pattern no longer recognisable)."""
    out = []
    n = 0
    for ins in prog:
        out.append(ins)
        f = None
        if ins[0] == "txn":
            f = ins[1]
        elif ins[0] == "gtxn":
            f = ins[2]
        elif ins[0] == "gtxns":
            f = ins[1]
        if f in fields:
            out.extend([("int", 0), ("+",)])
            n += 1
    return out, n


def r_append_return(prog):
    """Make 'running past the last instruction' explicit: append `return` (accepting runs stay accepting)."""
    if prog[-1][0] in ("return", "err", "b", "retsub"):
        return list(prog), 0
    return list(prog) + [("return",)], 1


def r_hoist_abs_read(prog, case, ex):
    """If every absolute-index read executed by the witness sits inside a loop (its instruction can reach itself
    in the local graph), repeat one such read at the very start of the program (the witness stays accepting:
    the same read succeeded later).  Not applicable (0 changes) if some executed read is outside loops."""
    from vt.ref import avm
    from vt.gen import teal as T
    ref = RefCFG(list(prog))
    r = avm.run(list(prog), ex["group"], ex["own"], labels=T.labels_of(prog))
    reads = case.reads.abs_read_pcs if len(prog) == len(case.prog) else None
    if reads is None:
        from vt.gen.inputs import Reads
        reads = Reads(list(prog)).abs_read_pcs
    executed = [pc for pc in r["trace"] if pc in reads and reads[pc] != ex["own"]]
    if not executed:
        return list(prog), 0

    def gsucc(k):
        """inter-procedural successors: into the callee at a callsub, back to every return point at a retsub"""
        op = prog[k][0]
        if op == "callsub":
            return [ref.labels[prog[k][1]]]
        if op == "retsub":
            out = []
            for name in ref.owners(k):
                if name != "__main__":
                    out.extend(c + 1 for c, nm in ref.callsites if nm == name and c + 1 < ref.n)
            return out
        return ref.local_succ[k]

    def in_loop(k):
        seen, work = set(), list(gsucc(k))
        while work:
            x = work.pop()
            if x == k:
                return True
            if x in seen:
                continue
            seen.add(x)
            work.extend(gsucc(x))
        return False

    if not all(in_loop(pc) for pc in executed):
        return list(prog), 0
    i = reads[executed[0]]
    head = [("gtxn", i, "Amount"), ("pop",)]
    if prog and prog[0][0] == "intcblock":
        return [prog[0]] + head + list(prog[1:]), 1
    return head + list(prog), 1


def r_opaque_fee_lower_bounds(prog):
    """Make every comparison that bounds `txn Fee` from BELOW (or pins it) opaque to tealer and to the walk oracle
    alike: `txn Fee; C; >|>=|==|!=` and `C; txn Fee; <|<=|==|!=` get `int 0; +` after the read."""
    out = []
    n = 0
    k = 0
    while k < len(prog):
        ins = prog[k]
        out.append(ins)
        if ins == ("txn", "Fee"):
            lower = False
            cmp_ops = ("<", "<=", ">", ">=", "==", "!=")
            if k + 2 < len(prog) and prog[k + 1][0] in INT_PUSH and prog[k + 2][0] in cmp_ops:
                negated = k + 3 < len(prog) and prog[k + 3][0] == "!"
                lower = (prog[k + 2][0] in (">", ">=", "==", "!=")) != negated or prog[k + 2][0] in ("==", "!=")
            if k >= 1 and k + 1 < len(prog) and prog[k - 1][0] in INT_PUSH and prog[k + 1][0] in cmp_ops:
                negated = k + 2 < len(prog) and prog[k + 2][0] == "!"
                lower = (prog[k + 1][0] in ("<", "<=", "==", "!=")) != negated or prog[k + 1][0] in ("==", "!=")
            if lower:
                out.extend([("int", 0), ("+",)])
                n += 1
        k += 1
    return out, n


def r_single_entry_intcblock(prog):
    """Counterfactual for the listed constant-block finding: the same constants in ONE intcblock at the very start
    (a doubled block is dropped, a block behind `b ICB0; ICB0:` is moved to the entry).  Same executions."""
    prog = list(prog)
    blocks = [k for k, i in enumerate(prog) if i[0] == "intcblock"]
    if not blocks:
        return prog, 0
    late = len(prog) >= 3 and prog[0] == ("b", "ICB0") and prog[1] == ("label", "ICB0") and blocks[0] == 2
    if len(blocks) == 1 and not late:
        return prog, 0
    if any(prog[k] != prog[blocks[0]] for k in blocks):
        return prog, 0
    icb = prog[blocks[0]]
    rest = [i for k, i in enumerate(prog) if k not in blocks]
    if late:
        rest = rest[2:]
    return [icb] + rest, 1


def _sub_ranges(prog):
    """{name: (start, end)} for subroutine bodies that are contiguous instruction ranges, else None."""
    ref = RefCFG(list(prog))
    if not ref.sub_entry:
        return None, ref
    entries = sorted(ref.sub_entry.values())
    label_at = {k: prog[k][1] for k in entries}
    bounds = entries + [len(prog)]
    # a trailing `FIN..:` / `MAIN..:` label block that belongs to main ends the last body
    out = {}
    for a, b in zip(bounds, bounds[1:]):
        name = label_at[a]
        end = b
        last_member = max(ref.sub_members[name]) if ref.sub_members[name] else a
        for k in range(last_member + 1, b):
            # the body ends at the first label block AFTER its last member that is not part of it (main's trailing
            # `FIN:` block, or dead code behind the body); dead code in the middle of a body stays inside it
            if prog[k][0] == "label" and (k not in ref.sub_members[name]) and prog[k - 1][0] in ("retsub", "return", "err", "b"):
                end = k
                break
        if not ref.sub_members[name] <= set(range(a, end)):
            return None, ref
        out[name] = (a, end)
    return out, ref


def r_clone_subroutines(prog):
    """Give every call site its own copy of the callee (recursively): same executions, no shared subroutine.
    Applicable only if some subroutine that is called from >= 2 sites can (itself or through its callees) end the
    program without returning - the shape of the listed call-site-liveness imprecision."""
    prog = list(prog)
    ranges, ref = _sub_ranges(prog)
    if not ranges:
        return prog, 0
    calls = {}
    for k, name in ref.callsites:
        calls.setdefault(name, []).append(k)
    def closure(name, seen=None):
        seen = seen if seen is not None else set()
        if name in seen:
            return seen
        seen.add(name)
        a, b = ranges[name]
        for k in range(a, b):
            if prog[k][0] == "callsub" and prog[k][1] in ranges:
                closure(prog[k][1], seen)
        return seen
    def can_exit(name):
        for n in closure(name):
            a, b = ranges[n]
            for k in range(a, b):
                if prog[k][0] == "return" or (k == len(prog) - 1 and prog[k][0] not in ("b", "err", "retsub", "return")):
                    return True
        return False
    shared_exit = [n for n in ranges if len(calls.get(n, [])) >= 2 and can_exit(n)]
    nested_shared = [n for n in ranges if can_exit(n) and any(len(calls.get(m, [])) >= 2 for m in closure(n))]
    if not shared_exit and not nested_shared:
        return prog, 0
    # recursion guard
    for n in ranges:
        if n in (closure(n) - {n}) and any(prog[k][1] == n for k in range(*ranges[n]) if prog[k][0] == "callsub"):
            return prog, 0
    body_idx = set()
    for a, b in ranges.values():
        body_idx.update(range(a, b))
    counter = [0]
    clones = []

    def expand(seq, depth=0):
        out = []
        for ins in seq:
            if ins[0] == "callsub" and ins[1] in ranges and depth < 6:
                counter[0] += 1
                tag = "_c%d" % counter[0]
                a, b = ranges[ins[1]]
                body = prog[a:b]
                labs = set(i[1] for i in body if i[0] == "label")
                ren = []
                for i in body:
                    if i[0] in ("label", "b", "bz", "bnz") and i[1] in labs:
                        ren.append((i[0], i[1] + tag))
                    elif i[0] in ("switch", "match"):
                        ren.append(tuple([i[0]] + [(l + tag if l in labs else l) for l in i[1:]]))
                    else:
                        ren.append(i)
                out.append(("callsub", ins[1] + tag))
                clones.append(expand(ren, depth + 1))
            else:
                out.append(ins)
        return out

    main = expand([ins for k, ins in enumerate(prog) if k not in body_idx])
    # main must not fall into the clones: the original layout already guaranteed that for the bodies it replaced;
    # put the clones where the first body was
    first = min(a for a, _b in ranges.values())
    n_before = len([k for k in range(first) if k not in body_idx])
    res = main[:n_before]
    for c in clones:
        res += c
    res += main[n_before:]
    return res, 1


TYPE_DIM = {"Pay": ("OnCompletion", "ApplicationID"), "Axfer": ("OnCompletion", "ApplicationID"),
            "ApplUpdateApplication": ("TypeEnum",), "ApplDeleteApplication": ("TypeEnum",)}
DET_LABEL = {"can-close-account": "Pay", "can-close-asset": "Axfer", "is-updatable": "ApplUpdateApplication",
             "is-deletable": "ApplDeleteApplication", "unprotected-updatable": "ApplUpdateApplication",
             "unprotected-deletable": "ApplDeleteApplication"}


def fragment(v, case, reeval):
    """Attribute a fragment-check violation (needs v['exec'] = witness input and v['ckey'])."""
    ex = v.get("exec")
    target = (v["kind"], v.get("ckey"))
    if v.get("atom") == "FEESINK" or str(v.get("ckey", "")).endswith(":FEESINK"):
        # the witness value is the address AAAA..EVAL4QAJS7JHB4 which tealer's ZERO_ADDRESS constant takes for the zero address
        return "zero-address-constant-is-a-nonzero-address"
    if not ex:
        # violation of an exactness monitor: no single witness input; only whole-program counterfactuals apply
        base = reeval(list(case.prog), case.version, None)
        if base is None or target not in base:
            return None
        cur = list(case.prog)
        chain = [("int-field-constant-first-operand", r_swap_int_field_operands),
                 ("end-of-program-fallthrough-not-an-exit", r_append_return)]
        if "listed-but-not-admitted" in v["kind"] or v["kind"] in ("constrained-field-reported-any", "reported-although-guarded"):
            chain.append(("call-site-liveness-through-shared-callee-that-can-exit", r_clone_subroutines))
        for name, R in chain:
            nxt, changed = R(cur)
            if not changed:
                continue
            try:
                got = reeval(nxt, case.version, None)
            except Exception:
                # a rewrite that does not yield an analysable program is not applicable; never an attribution
                v.setdefault("classifier_note", "rewrite %s gave a program that could not be analysed" % name)
                continue
            if got is not None and target not in got:
                return name
            cur = nxt
        return None
    chain = [("int-field-constant-first-operand", r_swap_int_field_operands),
             ("end-of-program-fallthrough-not-an-exit", r_append_return)]
    if v.get("detector") == "missing-fee-check" and v.get("kind") == "missed":
        chain.append(("fee-compared-with-constant-of-unresolved-constant-block", r_single_entry_intcblock))
    label = v.get("type_label") or DET_LABEL.get(v.get("detector"))
    if label in TYPE_DIM:
        chain.append(("txn-type-cross-dimension-label-drop", lambda p, f=TYPE_DIM[label]: r_opaque_reads(p, f)))
    if v.get("detector") == "group-size-check":
        chain.append(("group-size-absolute-read-only-inside-loop", lambda p, c=case, e=ex: r_hoist_abs_read(p, c, e)))
    cur = list(case.prog)
    base = reeval(cur, case.version, ex)
    if base is None or target not in base:
        v["classifier_note"] = "witness did not reproduce in isolation"
        return None
    for name, R in chain:
        nxt, changed = R(cur)
        if not changed:
            continue
        try:
            got = reeval(nxt, case.version, ex)
        except Exception:
            v.setdefault("classifier_note", "rewrite %s gave a program that could not be analysed" % name)
            continue
        if got is None:
            continue
        if target not in got:
            return name
        cur = nxt
    return None


ctx = fragment
