"""Mechanism classifiers: attribute a violation to a listed mechanism by a structural predicate on the
witness (and, where one exists, a counterfactual rewrite).  Returning None means "unattributed" and the
violation is reported as a VIOLATION.  Classifiers are deliberately narrow.
"""
from vt.ref.cfg import RefCFG


def c04(v):
    """prev-list corruption caused by pruning a dead block that has two or more live successors."""
    if v["kind"] not in ("prev-outside-graph", "next-prev-mismatch"):
        return None
    prog = [("#pragma", "version", v["version"])] + [tuple(i) for i in v["prog"]]
    ref = RefCFG(prog)
    for k in range(ref.n):
        if k not in ref.retained and prog[k][0] in ("bz", "bnz", "switch", "match"):
            live = [s for s in ref.local_succ[k] if s in ref.retained]
            if len(set(live)) >= 2:
                return "dead-block-multi-successor-pruning"
    return None


def c05(v):
    """exit/leaf notion ignores 'running past the last instruction' for a last-line branch."""
    if v["kind"] != "exit-blocks":
        return None
    prog = [tuple(i) for i in v["prog"]]
    last = prog[-1][0]
    if last in ("bz", "bnz", "switch", "match"):
        return "end-of-program-fallthrough-not-an-exit"
    return None


# ---------------------------------------------------------------- fragment checks (contexts, detectors)

def ctx(v, case, rng):
    """Mechanism of a context-soundness violation (C06-C10)."""
    return None
