"""Entry point of every registered check:  python -m vt.run C07 --tier quick|thorough [--replay file]

Forks up to 16 worker processes (fresh interpreter per batch, PYTHONHASHSEED=0, nothing
written under /repo), merges their results, matches violations against the committed
known-findings list, writes evidence/<id>.json and prints the verdict lines.

exit 0  held on everything explored (KNOWN-FINDING lines for listed mechanisms observed)
exit 1  VIOLATION property=<id> replay=<path>   for each distinct unlisted violation
exit 2  INCONCLUSIVE property=<id> reason=...    deciding monitor never reached / more than 10 % of the cases timed out (failed batches are retried once first)
"""
import argparse
import importlib
import json
import os
import subprocess
import sys
import time
from concurrent.futures import ThreadPoolExecutor

from vt import common, findings


def load(prop):
    return importlib.import_module("vt.checks." + prop.lower())


def ensure_deps():
    """icontract is only used by auxiliary (non-deciding) wrappers; install it offline if absent."""
    deps = os.path.join(common.VERIF_ROOT, ".deps")
    if os.path.isdir(os.path.join(deps, "icontract")):
        return
    try:
        subprocess.run(
            [common.PY, "-m", "pip", "install", "--quiet", "--no-index", "--find-links",
             "/opt/veriftools/wheels", "--target", deps, "icontract"],
            check=False, stdout=subprocess.DEVNULL, stderr=subprocess.DEVNULL, timeout=300,
        )
    except Exception:  # pragma: no cover - aux only
        pass


def worker_env(extra=None):
    env = dict(os.environ)
    env["PYTHONHASHSEED"] = env.get("VT_HASHSEED", "0")
    env["PYTHONDONTWRITEBYTECODE"] = "1"
    env["PYTHONPATH"] = common.VERIF_ROOT + os.pathsep + os.path.join(common.VERIF_ROOT, ".deps")
    env[common.GUARD] = "1"
    if extra:
        env.update(extra)
    return env


def run_one(prop, spec, timeout):
    t0 = time.time()
    try:
        p = subprocess.run(
            [common.PY, "-m", "vt.worker", prop],
            input=json.dumps(spec), capture_output=True, text=True, timeout=timeout,
            env=worker_env(spec.get("env")), cwd=common.VERIF_ROOT,
        )
    except subprocess.TimeoutExpired:
        return {"_failed": "timeout", "_spec": spec, "_wall": time.time() - t0}
    if p.returncode != 0:
        return {"_failed": "exit %d: %s" % (p.returncode, p.stderr[-2000:]), "_spec": spec, "_wall": time.time() - t0}
    for line in reversed(p.stdout.splitlines()):
        if line.startswith("RESULT "):
            r = json.loads(line[7:])
            r["_wall"] = time.time() - t0
            return r
    return {"_failed": "no result line: " + p.stdout[-500:] + p.stderr[-1500:], "_spec": spec, "_wall": time.time() - t0}


def merge(results):
    m = {"counters": {}, "nontrivial": set(), "violations": [], "known": [], "samples": [],
         "inconclusive": 0, "cases": 0, "failed_batches": [], "notes": []}
    for r in results:
        if "_failed" in r:
            m["failed_batches"].append(r["_failed"][:400])
            m["inconclusive"] += int(r["_spec"].get("n", 1))
            continue
        for k, v in r.get("counters", {}).items():
            m["counters"][k] = m["counters"].get(k, 0) + v
        m["nontrivial"].update(r.get("nontrivial", []))
        m["violations"].extend(r.get("violations", []))
        m["samples"].extend(r.get("samples", [])[:2])
        m["inconclusive"] += r.get("inconclusive", 0)
        m["cases"] += r.get("cases", 0)
        m["notes"].extend(r.get("notes", [])[:3])
    return m


def main(argv=None):
    ap = argparse.ArgumentParser()
    ap.add_argument("prop")
    ap.add_argument("--tier", default=os.environ.get("VERIF_TIER", "quick"), choices=["quick", "thorough"])
    ap.add_argument("--replay")
    ap.add_argument("--jobs", type=int, default=int(os.environ.get("VT_JOBS", "16")))
    ap.add_argument("--scale", type=float, default=float(os.environ.get("VT_SCALE", "1.0")))
    a = ap.parse_args(argv)
    prop = a.prop.upper()
    mod = load(prop)
    seed = common.seed_int()
    t = common.Timer()

    if a.replay:
        with open(a.replay, encoding="utf-8") as f:
            case = json.load(f)["case"]
        r = run_one(prop, {"replay": case, "n": 1}, 600)
        if "_failed" in r:
            print("INCONCLUSIVE property=%s reason=replay-worker-failed %s" % (prop, r["_failed"][:300]))
            return 2
        vs = r.get("violations", [])
        known = findings.load()
        bad = [v for v in vs if not findings.match(known, prop, v)]
        for v in vs:
            print(("VIOLATION" if v in bad else "KNOWN-FINDING:") + " property=%s %s" % (prop, v.get("what", "")))
        if not vs:
            print("replay: property held on this case")
        return 1 if bad else 0

    ensure_deps()
    import shutil
    shutil.rmtree(os.path.join(common.REPLAY_DIR, prop), ignore_errors=True)
    plan = mod.plan(a.tier, seed, a.scale)
    # generous wall-clock bounds (5-10x what an idle 16-core machine needs): a firing bound is "inconclusive", and a
    # batch that hit it - or whose worker died - is run once more, alone, before it is counted as such
    timeout = getattr(mod, "BATCH_TIMEOUT", {"quick": 1200, "thorough": 3600})[a.tier]
    with ThreadPoolExecutor(max_workers=a.jobs) as ex:
        results = list(ex.map(lambda s: run_one(prop, s, timeout), plan))
    retried = 0
    for i, r in enumerate(results):
        if "_failed" in r and retried < 4:
            retried += 1
            r2 = run_one(prop, r["_spec"], timeout)
            if "_failed" not in r2:
                r2.setdefault("notes", []).append({"batch_retried_after": r["_failed"][:200]})
                results[i] = r2
    m = merge(results)

    known = findings.load()
    unlisted, listed = [], {}
    for v in m["violations"]:
        k = findings.match(known, prop, v)
        if k:
            listed.setdefault(k["id"], []).append(v)
        else:
            unlisted.append(v)
    # de-duplicate unlisted violations by (kind, mechanism, program hash)
    dedup = {}
    for v in unlisted:
        dedup.setdefault((v.get("kind"), v.get("mechanism"), common.h(v.get("src", v.get("what")))), v)
    unlisted = list(dedup.values())

    cov = mod.coverage(m, a.tier)
    cov.setdefault("evaluations", m["cases"])
    cov["distinct_nontrivial"] = len(m["nontrivial"])
    cov.setdefault("samples", m["samples"][:5])
    cov["counters"] = {k: v for k, v in m["counters"].items() if not k.startswith("calls:")}
    cov["tealer_functions_entered_per_file_in_probed_batch"] = {k[6:]: v for k, v in sorted(m["counters"].items()) if k.startswith("calls:")}
    cov["inconclusive_cases"] = m["inconclusive"]
    cov["failed_batches"] = m["failed_batches"][:5]
    cov["known_findings_observed"] = {k: len(v) for k, v in listed.items()}
    cov["tealer_tree"] = common.REPO
    cov["batches"] = len(plan)
    kinds = {}
    for v in m["violations"]:
        kk = "%s|%s" % (v.get("kind"), v.get("mechanism"))
        kinds[kk] = kinds.get(kk, 0) + 1
    cov["violation_kinds_observed"] = kinds
    if m["notes"]:
        cov["notes"] = m["notes"][:10]

    status = 0
    reasons = []
    total = m["cases"] + m["inconclusive"]
    if total == 0 or m["cases"] == 0:
        reasons.append("no-case-completed")
    elif m["inconclusive"] > 0.10 * total and m["inconclusive"] > 2:
        reasons.append("inconclusive-share=%d/%d" % (m["inconclusive"], total))
    for cname in getattr(mod, "DECIDING_COUNTERS", []):
        if m["counters"].get(cname, 0) == 0:
            reasons.append("deciding-counter-zero:" + cname)
    if len(m["nontrivial"]) < 2:
        reasons.append("fewer-than-2-nontrivial-cases")

    for kid, vs in sorted(listed.items()):
        print("KNOWN-FINDING: property=%s %s (%d observations this run; e.g. %s)" % (
            prop, findings.describe(known, kid), len(vs), vs[0].get("what", "")[:160]))
    for v in unlisted[:25]:
        path = common.write_replay(prop, v)
        print("VIOLATION property=%s replay=%s" % (prop, path))
        print("  " + str(v.get("what", ""))[:300])
    if unlisted:
        status = 1
    elif reasons:
        status = 2
        print("INCONCLUSIVE property=%s reason=%s" % (prop, ";".join(reasons)))
        for fb in m["failed_batches"][:3]:
            print("  failed batch: " + fb.replace("\n", " | ")[:600])
    cov["verdict"] = {0: "held-on-explored", 1: "violated", 2: "inconclusive"}[status]
    common.write_evidence(prop, a.tier, seed, cov, t.s(), len(unlisted), mod.ASSUMPTIONS)
    if kinds:
        print("observed kinds: " + ", ".join("%s x%d" % kv for kv in sorted(kinds.items())))
    print("%s tier=%s seed=%d cases=%d nontrivial=%d violations=%d known=%d inconclusive=%d wall=%.1fs" % (
        prop, a.tier, seed, m["cases"], len(m["nontrivial"]), len(unlisted),
        sum(len(v) for v in listed.values()), m["inconclusive"], t.s()))
    return status


if __name__ == "__main__":
    sys.exit(main())
